//! In-crate verification runtime, compiled only under `cfg(kani)` inside the staged copy
//! (`crate::cache::verif_rt`).  Holds: the `thread::spawn` shim that stashes thread bodies, the
//! array-backed stand-ins for `std::collections::{HashSet, HashMap}`, and small helpers shared by
//! the harness modules.  No CacheD logic.
#![allow(dead_code, static_mut_refs, unused_imports)]

pub(crate) use verif_sched as vs;

pub(crate) mod thread {
    //! `thread::spawn(closure)` stores the real closure; a harness later runs it ("the worker
    //! executes these queued commands now", "the sweeper performs one tick now").
    pub(crate) const MAX_STASH: usize = 8;
    type Body = Option<Box<dyn FnOnce() + Send>>;
    // one static per slot (not an array): the slot index is a constant in every harness, and CBMC then keeps the
    // closure's vtable pointer constant, so that running slot n explores only the body that was stashed there
    static mut S0: Body = None; static mut S1: Body = None; static mut S2: Body = None; static mut S3: Body = None;
    static mut S4: Body = None; static mut S5: Body = None; static mut S6: Body = None; static mut S7: Body = None;
    pub(crate) static mut SPAWNED: usize = 0;
    pub(crate) struct JoinHandle;
    pub(crate) fn spawn<F>(f: F) -> JoinHandle where F: FnOnce() + Send + 'static {
        unsafe {
            let n = SPAWNED;
            assert!(n < MAX_STASH, "verif_rt: too many spawned threads");
            let b: Body = Some(Box::new(f));
            match n { 0 => S0 = b, 1 => S1 = b, 2 => S2 = b, 3 => S3 = b, 4 => S4 = b, 5 => S5 = b, 6 => S6 = b, _ => S7 = b }
            SPAWNED = n + 1;
        }
        JoinHandle
    }
    /// run the body of the `n`-th spawned thread (at most once) as logical thread `tid`
    pub(crate) fn run(n: usize, tid: usize) {
        unsafe {
            let body = match n { 0 => S0.take(), 1 => S1.take(), 2 => S2.take(), 3 => S3.take(), 4 => S4.take(), 5 => S5.take(), 6 => S6.take(), _ => S7.take() };
            if let Some(f) = body {
                let me = verif_sched::CUR;
                verif_sched::CUR = tid;
                f();
                verif_sched::CUR = me;
            }
        }
    }
    pub(crate) fn spawned() -> usize { unsafe { SPAWNED } }
}

pub(crate) mod atomic {
    //! `AtomicBool` with a schedule point before every access, so that an interferer can be placed
    //! between an atomic flag access and the neighbouring lock-protected accesses.
    //! Sequentially consistent (CBMC executes Kani programs that way; weak memory is outside the claim).
    use core::cell::Cell;
    use std::sync::atomic::Ordering;
    pub struct AtomicBool { v: Cell<u64> }   // 8 bytes wide: keeps the structs that embed it free of padding
    unsafe impl Sync for AtomicBool {}
    unsafe impl Send for AtomicBool {}
    impl AtomicBool {
        pub const fn new(v: bool) -> Self { AtomicBool { v: Cell::new(v as u64) } }
        pub fn load(&self, _o: Ordering) -> bool { verif_sched::schedule_point(verif_sched::S_ATOMIC); self.v.get() != 0 }
        pub fn store(&self, v: bool, _o: Ordering) { verif_sched::schedule_point(verif_sched::S_ATOMIC); self.v.set(v as u64) }
        pub fn swap(&self, v: bool, _o: Ordering) -> bool { verif_sched::schedule_point(verif_sched::S_ATOMIC); self.v.replace(v as u64) != 0 }
        pub fn compare_exchange(&self, cur: bool, new: bool, _s: Ordering, _f: Ordering) -> Result<bool, bool> {
            verif_sched::schedule_point(verif_sched::S_ATOMIC);
            let old = self.v.get() != 0;
            if old == cur { self.v.set(new as u64); Ok(old) } else { Err(old) }
        }
        pub fn vk_peek(&self) -> bool { self.v.get() != 0 }
    }
}

pub(crate) mod collections {
    //! Sequential array-backed `HashSet` / `HashMap` (std's versions run SipHash with random keys:
    //! > 6 min under Kani for one element).  Same observable behaviour as a set / map.
    use core::borrow::Borrow;
    use core::mem::MaybeUninit;
    pub(crate) const SCAP: usize = 4;
    pub(crate) const MCAP: usize = 10;

    pub struct HashSet<T> { used: [u64; SCAP], items: [MaybeUninit<T>; SCAP] }
    impl<T: Eq> HashSet<T> {
        pub fn new() -> Self { HashSet { used: [0; SCAP], items: unsafe { MaybeUninit::uninit().assume_init() } } }
        #[inline(always)]
        fn find<Q>(&self, v: &Q) -> usize where T: Borrow<Q>, Q: Eq + ?Sized {
            let mut idx = SCAP; let mut i = 0;
            while i < SCAP { if idx == SCAP && self.used[i] != 0 && unsafe { self.items[i].assume_init_ref() }.borrow() == v { idx = i; } i += 1; }
            idx
        }
        pub fn contains<Q>(&self, v: &Q) -> bool where T: Borrow<Q>, Q: Eq + ?Sized { self.find(v) < SCAP }
        pub fn insert(&mut self, v: T) -> bool {
            if self.find(&v) < SCAP { core::mem::forget(v); return false; }
            let mut f = SCAP; let mut i = 0;
            while i < SCAP { if f == SCAP && self.used[i] == 0 { f = i; } i += 1; }
            if f >= SCAP { kani::assume(false); f = 0; }
            self.used[f] = 1; self.items[f] = MaybeUninit::new(v);
            true
        }
        pub fn remove<Q>(&mut self, v: &Q) -> bool where T: Borrow<Q>, Q: Eq + ?Sized {
            let idx = self.find(v);
            if idx < SCAP { self.used[idx] = 0; true } else { false }
        }
        pub fn len(&self) -> usize { let mut n = 0; let mut i = 0; while i < SCAP { if self.used[i] != 0 { n += 1; } i += 1; } n }
        pub fn is_empty(&self) -> bool { self.len() == 0 }
        pub fn clear(&mut self) { let mut i = 0; while i < SCAP { self.used[i] = 0; i += 1; } }
    }

    /// `std::collections::BinaryHeap` stand-in.  Contract kept: `pop` returns A greatest element under the
    /// element type's own `Ord` (the crate's real comparator runs); which one among equal maxima follows
    /// VERIF_SEED's parity (std leaves it unspecified).  std's heap moves elements with `ptr::copy_nonoverlapping` /
    /// `mem::swap`; for `SampledKey` (24 bytes, 7 of them padding) that defeats CBMC's constant propagation and
    /// makes the eviction loop ~50x more expensive.
    pub struct BinaryHeap<T> { used: [u64; SCAP], items: [MaybeUninit<T>; SCAP], n: usize }
    impl<T: Ord> BinaryHeap<T> {
        pub fn new() -> Self { BinaryHeap { used: [0; SCAP], items: unsafe { MaybeUninit::uninit().assume_init() }, n: 0 } }
        pub fn len(&self) -> usize { self.n }
        pub fn is_empty(&self) -> bool { self.n == 0 }
        pub fn push(&mut self, v: T) {
            let mut f = SCAP; let mut i = 0;
            while i < SCAP { if f == SCAP && self.used[i] == 0 { f = i; } i += 1; }
            if f >= SCAP { kani::assume(false); f = 0; }
            self.used[f] = 1; self.items[f] = MaybeUninit::new(v); self.n += 1;
        }
        /// index of a greatest element; ties: the first one in slot order when VERIF_SEED is even, the last
        /// one when it is odd (std leaves the choice among equal maxima unspecified)
        #[inline(always)]
        fn max_index(&self) -> usize {
            let last = crate::cache::vk_cfg::SEED % 2 == 1;
            let mut best = SCAP; let mut i = 0;
            while i < SCAP {
                if self.used[i] != 0 {
                    if best == SCAP { best = i; }
                    else {
                        let c = unsafe { self.items[i].assume_init_ref() }.cmp(unsafe { self.items[best].assume_init_ref() });
                        if c == core::cmp::Ordering::Greater || (last && c == core::cmp::Ordering::Equal) { best = i; }
                    }
                }
                i += 1;
            }
            best
        }
        pub fn pop(&mut self) -> Option<T> {
            if self.n == 0 { return None; }
            let j = self.max_index();
            self.used[j] = 0; self.n -= 1;
            Some(unsafe { self.items[j].assume_init_read() })
        }
        pub fn peek(&self) -> Option<&T> {
            if self.n == 0 { return None; }
            Some(unsafe { self.items[self.max_index()].assume_init_ref() })
        }
        pub fn clear(&mut self) { let mut i = 0; while i < SCAP { self.used[i] = 0; i += 1; } self.n = 0; }
    }

    pub struct HashMap<K, V> { used: [u64; MCAP], keys: [MaybeUninit<K>; MCAP], vals: [MaybeUninit<V>; MCAP] }
    impl<K: Eq, V> HashMap<K, V> {
        pub fn new() -> Self { HashMap { used: [0; MCAP], keys: unsafe { MaybeUninit::uninit().assume_init() }, vals: unsafe { MaybeUninit::uninit().assume_init() } } }
        #[inline(always)]
        fn find<Q>(&self, k: &Q) -> usize where K: Borrow<Q>, Q: Eq + ?Sized {
            let mut idx = MCAP; let mut i = 0;
            while i < MCAP { if idx == MCAP && self.used[i] != 0 && unsafe { self.keys[i].assume_init_ref() }.borrow() == k { idx = i; } i += 1; }
            idx
        }
        pub fn insert(&mut self, k: K, v: V) -> Option<V> {
            let idx = self.find(&k);
            if idx < MCAP {
                let old = unsafe { self.vals[idx].assume_init_read() };
                self.vals[idx] = MaybeUninit::new(v);
                core::mem::forget(k);
                return Some(old);
            }
            let mut f = MCAP; let mut i = 0;
            while i < MCAP { if f == MCAP && self.used[i] == 0 { f = i; } i += 1; }
            if f >= MCAP { kani::assume(false); f = 0; }
            self.used[f] = 1; self.keys[f] = MaybeUninit::new(k); self.vals[f] = MaybeUninit::new(v);
            None
        }
        pub fn get<Q>(&self, k: &Q) -> Option<&V> where K: Borrow<Q>, Q: Eq + ?Sized {
            let idx = self.find(k);
            if idx < MCAP { Some(unsafe { self.vals[idx].assume_init_ref() }) } else { None }
        }
        pub fn contains_key<Q>(&self, k: &Q) -> bool where K: Borrow<Q>, Q: Eq + ?Sized { self.find(k) < MCAP }
        pub fn len(&self) -> usize { let mut n = 0; let mut i = 0; while i < MCAP { if self.used[i] != 0 { n += 1; } i += 1; } n }
        pub fn is_empty(&self) -> bool { self.len() == 0 }
    }
    impl<K: Eq, V> FromIterator<(K, V)> for HashMap<K, V> {
        fn from_iter<I: IntoIterator<Item = (K, V)>>(it: I) -> Self { let mut m = HashMap::new(); for (k, v) in it { m.insert(k, v); } m }
    }
    impl<K: Eq, V: PartialEq> PartialEq for HashMap<K, V> {
        fn eq(&self, o: &Self) -> bool {
            if self.len() != o.len() { return false; }
            let mut ok = true; let mut i = 0;
            while i < MCAP {
                if self.used[i] != 0 { match o.get(unsafe { self.keys[i].assume_init_ref() }) { Some(v) => { if v != unsafe { self.vals[i].assume_init_ref() } { ok = false; } } None => { ok = false; } } }
                i += 1;
            }
            ok
        }
    }
    impl<K, V> core::fmt::Debug for HashMap<K, V> { fn fmt(&self, f: &mut core::fmt::Formatter<'_>) -> core::fmt::Result { f.write_str("HashMap{..}") } }
}
