//! Harnesses for src/cache/put_or_update.rs — C08 (request shapes, weight to apply), C17 (builder).
#![allow(unused_imports, dead_code)]
use super::*;

pub(crate) fn vk_request(key: u64, value: Option<u64>, weight: Option<Weight>, ttl: Option<Duration>, remove_ttl: bool) -> PutOrUpdateRequest<u64, u64> {
    PutOrUpdateRequest { key, value, weight, time_to_live: ttl, remove_time_to_live: remove_ttl }
}
fn wfn(_k: &u64, _v: &u64, ttl: bool) -> Weight { if ttl { 64 } else { 40 } }

/// C08 / P1: the weight an upsert applies: the explicit weight if given; else recomputed from the new value
/// (with the TTL flag iff a TTL is part of the request); else none.  All 16 field combinations.
#[kani::proof]
#[kani::unwind(2)]
fn c08_updated_weight_kernel() {
    let value: Option<u64> = if kani::any() { Some(kani::any()) } else { None };
    let weight: Option<Weight> = if kani::any() { let w: Weight = kani::any(); kani::assume(w > 0); Some(w) } else { None };
    let ttl: Option<Duration> = if kani::any() { Some(Duration::from_secs(kani::any::<u32>() as u64)) } else { None };
    let remove: bool = kani::any();
    let r = vk_request(7, value, weight, ttl, remove);
    let f: Box<crate::cache::config::WeightCalculationFn<u64, u64>> = Box::new(|k: &u64, v: &u64, t: bool| wfn(k, v, t));
    let got = r.updated_weight(&f);
    let exp = match (weight, value) { (Some(w), _) => Some(w), (None, Some(_)) => Some(if ttl.is_some() { 64 } else { 40 }), (None, None) => None };
    assert!(got == exp, "C08: weight to apply = explicit weight, else recomputed from the new value (TTL flag iff a TTL is requested), else none");
}

/// C08/C17: the request builder accepts exactly the well-formed shapes and copies every field.
#[kani::proof]
#[kani::unwind(2)]
fn c08_builder_builds_wellformed_requests() {
    let with_value: bool = kani::any();
    let with_weight: bool = kani::any();
    let with_ttl: bool = kani::any();
    let remove: bool = kani::any();
    let wellformed = (with_value || with_weight || with_ttl || remove) && !(with_ttl && remove);
    kani::assume(wellformed);
    let w: Weight = kani::any();
    kani::assume(w > 0);
    let secs: u32 = kani::any();
    let mut b = PutOrUpdateRequestBuilder::<u64, u64>::new(7);
    if with_value { b = b.value(3); }
    if with_weight { b = b.weight(w); }
    if with_ttl { b = b.time_to_live(Duration::from_secs(secs as u64)); }
    if remove { b = b.remove_time_to_live(); }
    let r = b.build();
    assert!(r.key == 7 && r.value == if with_value { Some(3) } else { None } && r.weight == if with_weight { Some(w) } else { None }
            && r.time_to_live == if with_ttl { Some(Duration::from_secs(secs as u64)) } else { None } && r.remove_time_to_live == remove,
            "C08: a well-formed request carries exactly the requested fields (and building it does not panic)");
    kani::cover!(with_value && with_weight && with_ttl, "value + weight + ttl");
    kani::cover!(!with_value && !with_weight && !with_ttl && remove, "remove TTL only");
}
