//! Harnesses / constructors for src/cache/policy/admission_policy.rs — properties C06, C01, C03, C15.
#![allow(unused_imports, dead_code, static_mut_refs)]
use super::*;
use crate::cache::vk_support as sup;
use sup::vs;
use crate::cache::stats::verif_kani as stk;
use crate::cache::policy::cache_weight::verif_kani as cwk;
use crate::cache::lfu::tiny_lfu::verif_kani as tlk;
use crate::cache::lfu::frequency_counter::verif_kani as fck;
use crate::cache::lfu::doorkeeper::verif_kani as dkk;

pub(crate) fn vk_policy(cw: CacheWeight<u64>, lfu: TinyLFU, stats: Arc<ConcurrentStatsCounter>, chan_cap: usize)
                        -> (AdmissionPolicy<u64>, Receiver<BufferEvent>) {
    let (sender, receiver) = crossbeam_channel::bounded(chan_cap);
    sender.vk_set_class(vs::CL_ACCESS_QUEUE);
    let p = AdmissionPolicy { access_frequency: Arc::new(RwLock::new(lfu)), cache_weight: cw, sender, keep_running: Arc::new(AtomicBool::new(true)), stats_counter: stats };
    p.access_frequency.vk_set_class(vs::CL_SKETCH);
    (p, receiver)
}
pub(crate) fn vk_cw(p: &AdmissionPolicy<u64>) -> &CacheWeight<u64> { &p.cache_weight }
pub(crate) fn vk_lfu(p: &AdmissionPolicy<u64>) -> &mut TinyLFU { p.access_frequency.vk_data() }
pub(crate) fn vk_keep_running(p: &AdmissionPolicy<u64>) -> bool { p.keep_running.vk_peek() }
pub(crate) fn vk_sender(p: &AdmissionPolicy<u64>) -> &crossbeam_channel::Sender<BufferEvent> { &p.sender }

pub(crate) fn vk_plain_lfu() -> TinyLFU { tlk::vk_tiny_lfu(fck::vk_zero_sketch(8), dkk::vk_doorkeeper_exact(), 0, 1000) }
/// Give the policy's sketch (width 8, zero seeds) a solver-chosen estimate per hash 0..=3 (0 = incoming,
/// 1..=3 residents): nibble f in 0..=15 in all four rows, plus an optional doorkeeper membership (+1):
/// estimates 0..=16.  Written IN PLACE after the policy was built from concrete parts.
pub(crate) fn vk_set_profile(p: &AdmissionPolicy<u64>) -> [u8; 4] {
    let lfu = vk_lfu(p);
    let mut est = [0u8; 4];
    // est[0]: the incoming key (hash 0); est[i + 1]: resident i (hash i + 5: different from its id i + 1)
    let hashes: [u64; 4] = [0, cwk::hash_of(0), cwk::hash_of(1), cwk::hash_of(2)];
    let mut k = 0;
    while k < 4 {
        let f: u8 = kani::any();
        kani::assume(f <= 15);
        fck::vk_set_counter(tlk::vk_sketch_mut(lfu), hashes[k], f);
        let member: bool = kani::any();
        dkk::vk_place_if(tlk::vk_doorkeeper_mut(lfu), k, hashes[k], member);
        est[k] = f + if member { 1 } else { 0 };
        k += 1;
    }
    est
}

static mut VICTIMS: [u64; 4] = [0; 4];
static mut NVICTIMS: usize = 0;
fn record_victim(key: u64) { unsafe { if NVICTIMS < 4 { VICTIMS[NVICTIMS] = key; } NVICTIMS += 1; } }

/// C06/C01/C03 / P3: the real `maybe_add` (incl. `create_space`, the sampler, the real TinyLFU estimate) on an
/// arbitrary weight map (<= 3 residents, any weights, any limit, any slot order), an arbitrary frequency
/// profile (ties and saturated estimates included) and an arbitrary incoming weight, checked against the
/// TinyLFU admission rule written out as an executable checker over the observed eviction sequence.
#[kani::proof]
#[kani::unwind(5)]
fn c06_maybe_add_rule_1_resident() { maybe_add_rule(Some(1)); }
#[kani::proof]
#[kani::unwind(5)]
fn c06_maybe_add_rule_2_residents() { maybe_add_rule(Some(2)); }
#[kani::proof]
#[kani::unwind(5)]
fn c06_maybe_add_rule_3_residents() { maybe_add_rule(Some(3)); }
#[kani::proof]
#[kani::unwind(5)]
fn c06_maybe_add_rule_any_residents() { maybe_add_rule(None); }

fn maybe_add_rule(fixed_n: Option<usize>) {
    unsafe { vs::MONITOR = true; vs::EDGES_ON = crate::cache::vk_cfg::LOCK_EDGES; }
    let stats = stk::vk_fresh();
    // in-flight generalisation (RI7): the total may include the weight of an entry whose map entry another
    // thread's delete has already removed but whose weight it has not subtracted yet
    let a = cwk::vk_any_astate(fixed_n, true);
    let (present, weights) = (a.present, a.weights);
    let (policy, _rx) = vk_policy(cwk::vk_cache_weight(1, 0, stats.clone()), vk_plain_lfu(), stats.clone(), 2);
    cwk::vk_populate(vk_cw(&policy), &a);
    let est = vk_set_profile(&policy);
    let max = a.max;
    let used0 = a.used;
    let in_flight = used0 as i128 - cwk::vk_sum(vk_cw(&policy));
    let w: Weight = kani::any();
    kani::assume(w >= 1);
    let incoming = KeyDescription::new(104u64, 4, 0, w);
    unsafe { NVICTIMS = 0; }
    // the estimate seen through the real code path equals the profile
    assert!(policy.estimate(0) == est[0] && policy.estimate(cwk::hash_of(1)) == est[2], "C06: estimate = sketch minimum (+1 if the doorkeeper holds the key)");

    let status = policy.maybe_add(&incoming, &record_victim);

    let nv = unsafe { NVICTIMS };
    let cwr = vk_cw(&policy);
    let used1 = cwk::vk_used(cwr);
    assert!(used1 >= 0 && used1 <= max, "C01: total weight stays within 0..=limit after every admission decision");
    if w > max {
        assert!(status == CommandStatus::Rejected(RejectionReason::KeyWeightIsGreaterThanCacheWeight), "C06: a put heavier than the whole cache is rejected for that reason");
        assert!(nv == 0 && used1 == used0 && cwk::vk_entry(cwr, 4).is_none(), "C06: ... and changes nothing");
    } else if max - used0 >= w {
        assert!(status == CommandStatus::Accepted, "C06: a put that fits in the free space is always accepted");
        assert!(nv == 0, "C03/C06: ... and evicts nothing");
        assert!(used1 == used0 + w && cwk::vk_entry(cwr, 4) == Some((104, 0, w)), "C05: accepted key is charged with its weight");
    } else {
        // replay the observed eviction sequence against the rule
        let mut alive = present;
        let mut space = max - used0;
        let mut k = 0;
        assert!(nv <= 3, "C06: at most every resident key is evicted");
        while k < 3 {
            if k < nv {
                let key = unsafe { VICTIMS[k] };
                assert!(key >= 101 && key <= 103, "C06: victims are resident keys");
                let v = (key - 101) as usize;
                assert!(alive[v], "C06: a key is evicted at most once");
                assert!(space < w, "C06: eviction continues only while space is still insufficient");
                let mut j = 0;
                while j < cwk::POOL {
                    if alive[j] {
                        let fv = est[v + 1]; let fj = est[j + 1];
                        assert!(fv < fj || (fv == fj && weights[v] >= weights[j]), "C06: the victim is the sampled key with the lowest estimate (heavier first on ties)");
                    }
                    j += 1;
                }
                assert!(est[v + 1] <= est[0], "C06: a victim's estimate never exceeds the incoming key's estimate (colder never evicts hotter)");
                alive[v] = false;
                space += weights[v];
            }
            k += 1;
        }
        let mut j = 0;
        let mut any_alive = false;
        let mut min_f = 255u8;
        while j < cwk::POOL {
            assert!(cwk::vk_entry(cwr, (j + 1) as KeyId).is_some() == alive[j], "C06: exactly the reported victims were released");
            if alive[j] { any_alive = true; if est[j + 1] < min_f { min_f = est[j + 1]; } }
            j += 1;
        }
        if space >= w {
            assert!(status == CommandStatus::Accepted, "C06: the put is accepted exactly when enough space results");
            assert!(cwk::vk_entry(cwr, 4) == Some((104, 0, w)) && used1 == max - space + w, "C05: accepted key charged; victims' weights released");
        } else {
            assert!(status == CommandStatus::Rejected(RejectionReason::EnoughSpaceIsNotAvailableAndKeyFailedToEvictOthers), "C06: otherwise it is rejected (not enough space)");
            assert!(!any_alive || est[0] < min_f, "C06: eviction stops early only when the coldest sampled key is hotter than the incoming key");
            assert!(cwk::vk_entry(cwr, 4).is_none() && used1 == max - space, "C05: a rejected key is not charged; evicted victims stay released");
        }
        let n_res = (present[0] as usize) + (present[1] as usize) + (present[2] as usize);
        kani::cover!(n_res < 2 || (nv == 2 && status == CommandStatus::Accepted), "two victims then accepted");
        kani::cover!(n_res < 2 || (nv == 1 && status != CommandStatus::Accepted), "partial eviction then rejected");
        kani::cover!(nv == 0 && status != CommandStatus::Accepted && any_alive, "rejected without evicting: incoming colder than every sampled key");
        kani::cover!(nv >= 1 && est[0] == est[(unsafe { VICTIMS[0] } - 100) as usize], "tie between incoming and victim estimate: victim evicted");
        kani::cover!(nv == n_res && status == CommandStatus::Accepted, "every resident evicted, then accepted");
        kani::cover!(nv == n_res && status != CommandStatus::Accepted && in_flight > 0, "every resident evicted, space still insufficient (weight in flight): rejected");
        kani::cover!(est[0] == 16, "saturated incoming estimate");
    }
    // C16: weight statistics track the total
    assert!(stats.weight_added().wrapping_sub(stats.weight_removed()) == (used1.wrapping_sub(used0)) as u64, "C16: weight added minus removed tracks the total through evictions");
    kani::cover!(w > max, "heavier than the cache");
    kani::cover!(w <= max && max - used0 == w, "exactly fits");
    vs::edge_covers();
    core::mem::forget(policy);
}

/// C15/C13 / P2: the REAL consumer closure (stashed by the real constructor) applies a delivered batch: every
/// hash of the batch is recorded exactly once (the sketch's access count grows by the batch length, each
/// hash's estimate grows), then it parks; after shutdown() it terminates on the Shutdown event.
#[kani::proof]
#[kani::unwind(6)]
fn c15_consumer_applies_each_batch_once() {
    let stats = stk::vk_fresh();
    let (policy, rx) = vk_policy(cwk::vk_cache_weight(100, 0, stats.clone()), vk_plain_lfu(), stats.clone(), 2);
    let mut aq: [Option<BufferEvent>; crossbeam_channel::QCAP] = [None, None, None, None];
    vk_sender(&policy).vk_use_storage(&mut aq as *mut _);
    let slot = crate::cache::verif_rt::thread::spawned();
    policy.start(rx);
    let h1: u64 = kani::any();
    let h2: u64 = kani::any();
    let e1 = policy.estimate(h1);
    policy.accept(BufferEvent::Full(vec![h1, h2]));
    assert!(stats.access_added() == 2 && stats.access_dropped() == 0, "C15: a delivered buffer is counted as added, whole");
    unsafe { vs::PARKED = false; }
    crate::cache::verif_rt::thread::run(slot, 2);
    assert!(unsafe { vs::PARKED }, "C15: after applying the batch the consumer waits for the next one");
    assert!(tlk::vk_total_increments(vk_lfu(&policy)) == 2, "C15: every hash of a delivered batch is recorded exactly once");
    assert!(policy.estimate(h1) >= e1 + 1 || policy.estimate(h1) >= 15, "C15: delivery reaches the sketch");
    assert!(vk_sender(&policy).len() == 0, "C15: the batch was consumed");
    kani::cover!(h1 == h2, "same hash twice in one batch");
    core::mem::forget(policy);
}
#[kani::proof]
#[kani::unwind(12)]
fn c13_consumer_stops_on_shutdown() {
    let stats = stk::vk_fresh();
    let (policy, rx) = vk_policy(cwk::vk_cache_weight(100, 0, stats.clone()), vk_plain_lfu(), stats.clone(), 2);
    let mut aq: [Option<BufferEvent>; crossbeam_channel::QCAP] = [None, None, None, None];
    vk_sender(&policy).vk_use_storage(&mut aq as *mut _);
    let slot = crate::cache::verif_rt::thread::spawned();
    policy.start(rx);
    policy.shutdown();
    assert!(!vk_keep_running(&policy), "C13: the consumer is told to stop");
    unsafe { vs::PARKED = false; }
    crate::cache::verif_rt::thread::run(slot, 2);
    assert!(!unsafe { vs::PARKED }, "C13: the consumer terminates on the Shutdown event instead of waiting");
    // with the consumer gone, hand-overs are counted as dropped (the read path still never blocks)
    policy.accept(BufferEvent::Full(vec![1, 2, 3]));
    assert!(stats.access_dropped() == 3 && stats.access_added() == 0, "C15: buffers offered to a stopped consumer are dropped and counted");
    policy.clear();
    assert!(stats.access_dropped() == 0, "C13: clear resets the statistics");
    core::mem::forget(policy);
}

static mut G_SLOT: usize = 0;
/// the consumer thread dequeues and applies whatever is queued right now
fn interfering_consumer(_site: u32) { unsafe { vs::PARKED = false; crate::cache::verif_rt::thread::run(G_SLOT, 2); } }
/// C15 / P4: the consumer thread picks up a delivered batch at a solver-chosen point WHILE another thread is
/// inside estimate() (holding the sketch's read lock - e.g. the worker sampling victims).  Whenever the
/// consumer has dequeued the batch, every hash of it is in the sketch: a batch counted as delivered is never
/// skipped because the sketch was busy.  (With the real lock the consumer waits; the lock model makes that
/// placement infeasible, so on code that waits this harness has nothing to observe.)
#[kani::proof]
#[kani::unwind(6)]
fn c15_consumer_races_estimate() {
    let stats = stk::vk_fresh();
    // policy built from concrete parts (width-8 sketch, zero seeds); the REAL consumer closure is obtained from the
    // real `start` on the policy's own receiver
    let (policy, rx) = vk_policy(cwk::vk_cache_weight(100, 0, stats.clone()), vk_plain_lfu(), stats.clone(), 2);
    // access-queue slots in typed stack memory (a heap slot would lose the length of the queued Vec of hashes)
    let mut aq: [Option<BufferEvent>; crossbeam_channel::QCAP] = [None, None, None, None];
    vk_sender(&policy).vk_use_storage(&mut aq as *mut _);
    let slot = crate::cache::verif_rt::thread::spawned();
    policy.start(rx);
    policy.accept(BufferEvent::Full(vec![3, 4]));
    unsafe { G_SLOT = slot; }
    vs::set_hook(interfering_consumer, 1);
    vs::set_hook_sites(1 << vs::S_LOCK_REL);      // one placement: while estimate() still holds the sketch's read lock
    let _e = policy.estimate(3);
    vs::clear_hook();
    let dequeued = vk_sender(&policy).len() == 0;
    if dequeued {
        assert!(tlk::vk_total_increments(vk_lfu(&policy)) == stats.access_added(), "C15: every access counted as delivered reaches the sketch exactly once");
    }
    kani::cover!(dequeued, "opt: the consumer ran while estimate() was in progress");
    core::mem::forget(policy);
}
