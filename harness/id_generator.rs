//! Constructors / harness for src/cache/unique_id/increasing_id_generator.rs
#![allow(unused_imports, dead_code)]
use super::*;
pub(crate) fn vk_idgen(next: u64) -> IncreasingIdGenerator { IncreasingIdGenerator { id: AtomicU64::new(next) } }
pub(crate) fn vk_peek(g: &IncreasingIdGenerator) -> u64 { g.id.load(Ordering::Acquire) }

/// C05/C11: ids are fresh: two successive ids differ and increase (no reuse of a charged id).
#[kani::proof]
#[kani::unwind(2)]
fn c05_ids_are_fresh() {
    let start: u64 = kani::any();
    kani::assume(start < u64::MAX - 2);
    let g = vk_idgen(start);
    let a = g.next();
    let b = g.next();
    assert!(a == start && b == start + 1 && vk_peek(&g) == start + 2, "C05: every queued put gets a fresh, increasing id");
    let fresh = IncreasingIdGenerator::new();
    assert!(fresh.next() == 1, "C05: ids start at 1");
}
