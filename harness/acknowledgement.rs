//! Harnesses for src/cache/command/acknowledgement.rs — property C12.
#![allow(unused_imports, dead_code, static_mut_refs)]
use super::*;
use crate::cache::vk_support as sup;
use sup::vs;
use std::task::{RawWaker, RawWakerVTable};

pub(crate) static mut WAKES: [u32; 2] = [0, 0];
unsafe fn w_clone(p: *const ()) -> RawWaker { RawWaker::new(p, &VTABLE) }
unsafe fn w_wake(p: *const ()) { WAKES[p as usize] += 1; }
unsafe fn w_wake_by_ref(p: *const ()) { WAKES[p as usize] += 1; }
unsafe fn w_drop(_p: *const ()) {}
static VTABLE: RawWakerVTable = RawWakerVTable::new(w_clone, w_wake, w_wake_by_ref, w_drop);
pub(crate) fn counting_waker(id: usize) -> Waker { unsafe { Waker::from_raw(RawWaker::new(id as *const (), &VTABLE)) } }

pub(crate) fn vk_poll(ack: &CommandAcknowledgement, waker_id: usize) -> Poll<CommandStatus> {
    let w = counting_waker(waker_id);
    let mut cx = Context::from_waker(&w);
    let mut fut = ack.handle();
    let r = Pin::new(&mut fut).poll(&mut cx);
    core::mem::forget(w);
    r
}
pub(crate) fn vk_classify(ack: &CommandAcknowledgement) {
    ack.handle.status.vk_set_class(vs::CL_ACK_STATUS);
    ack.handle.waker_state.vk_set_class(vs::CL_ACK_WAKER);
}
pub(crate) fn vk_is_done(ack: &CommandAcknowledgement) -> bool { ack.handle.done.vk_peek() }
pub(crate) fn vk_status(ack: &CommandAcknowledgement) -> CommandStatus { *ack.handle.status.vk_data() }

fn any_final_status() -> CommandStatus {
    let k: u8 = kani::any();
    kani::assume(k < 6);
    match k {
        0 => CommandStatus::Accepted,
        1 => CommandStatus::ShuttingDown,
        2 => CommandStatus::Rejected(RejectionReason::EnoughSpaceIsNotAvailableAndKeyFailedToEvictOthers),
        3 => CommandStatus::Rejected(RejectionReason::KeyWeightIsGreaterThanCacheWeight),
        4 => CommandStatus::Rejected(RejectionReason::KeyDoesNotExist),
        _ => CommandStatus::Rejected(RejectionReason::KeyAlreadyExists),
    }
}

// ---- interferer: one complete poll by another task, placed by the solver at any schedule point of done()
static mut I_ACK: *const CommandAcknowledgement = core::ptr::null();
static mut I_WAKER: usize = 0;
static mut I_RESULT: Option<Poll<CommandStatus>> = None;
static mut I_WAKES_AT_POLL: u32 = 0;
fn interfering_poll(_site: u32) {
    unsafe {
        let r = vk_poll(&*I_ACK, I_WAKER);
        I_WAKES_AT_POLL = WAKES[I_WAKER];
        I_RESULT = Some(r);
    }
}

/// C12: completion racing a poll.  Task A (waker 0) may poll before the worker completes the command;
/// the worker then runs the real `done(status)`; a second poll (task A again, or task B with another waker)
/// is placed by the solver at ANY shared-memory access of `done()` (flag, status lock, waker lock);
/// afterwards two more polls.  Oracle: no poll ever yields Ready(Pending); every Ready carries the status
/// passed to done(); the last poller that was told Pending before completion is woken afterwards; after
/// done() every poll is Ready(status).
#[kani::proof]
#[kani::unwind(4)]
fn c12_done_races_poll() {
    unsafe { vs::MONITOR = true; vs::EDGES_ON = crate::cache::vk_cfg::LOCK_EDGES; }
    let ack = CommandAcknowledgement::new();
    vk_classify(&ack);
    let status = any_final_status();
    let pre_poll: bool = kani::any();
    let mut last_pending_waker: Option<usize> = None;
    let mut wakes_at_last_pending: u32 = 0;
    if pre_poll {
        let r = vk_poll(&ack, 0);
        assert!(r == Poll::Pending, "C12: not completed yet: poll is pending");
        last_pending_waker = Some(0);
    }
    unsafe {
        I_ACK = &*ack as *const CommandAcknowledgement;
        I_WAKER = if kani::any() { 1 } else { 0 };
        I_RESULT = None;
    }
    vs::set_hook(interfering_poll, 1);
    ack.done(status);
    vs::clear_hook();
    let fired = vs::fired() == 1;
    if fired {
        let r = unsafe { I_RESULT.unwrap() };
        match r {
            Poll::Ready(s) => {
                // this poll is now the most recent one and it was not told Pending: nobody is owed a wake-up
                last_pending_waker = None;
                let in_known_region = s == CommandStatus::Pending;
                if crate::cache::vk_cfg::KF_F2 && in_known_region {
                    kani::cover!(true, "KF F2: a poll between the done flag and the status write returns Ready(Pending)");
                } else {
                    assert!(s != CommandStatus::Pending, "C12: a poll never yields the placeholder Pending status");
                    assert!(s == status, "C12: Ready carries the status the command ended with");
                }
            }
            Poll::Pending => {
                unsafe { last_pending_waker = Some(I_WAKER); wakes_at_last_pending = I_WAKES_AT_POLL; }
            }
        }
    }
    if let Some(w) = last_pending_waker {
        let woken = unsafe { WAKES[w] } > wakes_at_last_pending;
        assert!(woken, "C12: the task that most recently polled (and was told Pending) before completion is woken afterwards");
    }
    let r1 = vk_poll(&ack, 0);
    let r2 = vk_poll(&ack, 1);
    assert!(r1 == Poll::Ready(status) && r2 == Poll::Ready(status), "C12: after completion every poll yields the same real status");
    kani::cover!(fired && pre_poll, "poll placed inside done() after an earlier pending poll");
    kani::cover!(fired && unsafe { I_RESULT == Some(Poll::Pending) }, "racing poll was told Pending");
    kani::cover!(fired && unsafe { matches!(I_RESULT, Some(Poll::Ready(_))) }, "racing poll saw completion");
    kani::cover!(!fired, "no racing poll");
    vs::edge_covers();
}

/// C12 (reverse nesting): the worker's whole done() placed by the solver at any shared access of poll().
static mut D_STATUS: CommandStatus = CommandStatus::Accepted;
fn interfering_done(_site: u32) { unsafe { (&*I_ACK).done(D_STATUS); } }
#[kani::proof]
#[kani::unwind(4)]
fn c12_poll_races_done() {
    let ack = CommandAcknowledgement::new();
    vk_classify(&ack);
    let status = any_final_status();
    unsafe { I_ACK = &*ack as *const CommandAcknowledgement; D_STATUS = status; }
    vs::set_hook(interfering_done, 1);
    let r = vk_poll(&ack, 0);
    vs::clear_hook();
    let fired = vs::fired() == 1;
    match r {
        Poll::Ready(s) => {
            assert!(fired, "C12: Ready only after completion");
            assert!(s == status, "C12: Ready carries the real status, never Pending");
        }
        Poll::Pending => {
            if fired { assert!(unsafe { WAKES[0] } >= 1, "C12: completion that overlaps a pending poll wakes the poller"); }
        }
    }
    if !fired { ack.done(status); assert!(unsafe { WAKES[0] } >= 1, "C12: a registered waker is woken on completion"); }
    assert!(vk_poll(&ack, 0) == Poll::Ready(status), "C12: resolves to the real status");
    kani::cover!(fired && r == Poll::Pending, "opt: completion inside a poll that still returned Pending (expected unreachable: the flag is read after the waker is registered)");
    kani::cover!(fired && r != Poll::Pending, "completion inside a poll that returned Ready");
}

/// C12: pre-resolved acknowledgements (accepted / rejected) are Ready at the first poll with the given status.
#[kani::proof]
#[kani::unwind(4)]
fn c12_preresolved() {
    let a = CommandAcknowledgement::accepted();
    assert!(vk_poll(&a, 0) == Poll::Ready(CommandStatus::Accepted), "C12: accepted() resolves to Accepted");
    let r = CommandAcknowledgement::rejected(RejectionReason::KeyAlreadyExists);
    assert!(vk_poll(&r, 0) == Poll::Ready(CommandStatus::Rejected(RejectionReason::KeyAlreadyExists)), "C12: rejected() resolves to its reason");
    assert!(vk_poll(&r, 1) == Poll::Ready(CommandStatus::Rejected(RejectionReason::KeyAlreadyExists)), "C12: same status on every later poll");
}
