//! Helpers shared by all harness modules (`crate::cache::vk_support`), compiled only under cfg(kani).
#![allow(dead_code, unused_imports, static_mut_refs)]
pub(crate) use crate::cache::verif_rt::vs;
pub(crate) use crate::cache::vk_cfg as cfg;
use std::time::{Duration, SystemTime, UNIX_EPOCH};
use crate::cache::clock::{Clock, ClockType};

/// Harness clock: `UNIX_EPOCH + (secs, nanos)` read from a static the harness sets.
#[derive(Clone)]
pub(crate) struct VkClock;
pub(crate) static mut NOW_SECS: u64 = 0;
pub(crate) static mut NOW_NANOS: u32 = 0;
impl Clock for VkClock {
    fn now(&self) -> SystemTime {
        // the clock is a user-supplied callback: other threads may run while it executes
        vs::schedule_point(vs::S_USER);
        unsafe { time(NOW_SECS, NOW_NANOS) }
    }
}
pub(crate) fn set_now(secs: u64, nanos: u32) { unsafe { NOW_SECS = secs; NOW_NANOS = nanos; } }
pub(crate) fn clock() -> ClockType { Box::new(VkClock) }
/// `UNIX_EPOCH + (secs, nanos)` assembled field by field instead of through `Duration::new` + `checked_add`:
/// those normalise the nanoseconds with a division, after which CBMC no longer sees a CONCRETE second as concrete
/// when the nanoseconds are symbolic (and the expiry-index shard `secs % shards` becomes a symbolic array index).
/// Relies on SystemTime being { seconds: i64, nanoseconds: u32 } on this target; `c09_time_construction_is_faithful`
/// checks the construction against the arithmetic one for all values, so a layout change cannot go unnoticed.
#[repr(C)]
struct RawTime { sec: i64, nsec: u32 }
pub(crate) fn time(secs: u64, nanos: u32) -> SystemTime {
    let epoch: RawTime = unsafe { core::mem::transmute::<SystemTime, RawTime>(UNIX_EPOCH) };
    unsafe { core::mem::transmute::<RawTime, SystemTime>(RawTime { sec: epoch.sec + secs as i64, nsec: nanos }) }
}
pub(crate) fn time_arith(secs: u64, nanos: u32) -> SystemTime { UNIX_EPOCH + Duration::new(secs, nanos) }

// NOTE: never decompose a SystemTime in a harness (duration_since + Duration accessors stall CBMC:
// > 60 s for one call); build the expected SystemTime from (secs, nanos) with `time()` and compare.

pub(crate) fn any_nanos() -> u32 { let n: u32 = kani::any(); kani::assume(n < 1_000_000_000); n }
