//! Helpers shared by all harness modules (`crate::cache::vk_support`), compiled only under cfg(kani).
#![allow(dead_code, unused_imports, static_mut_refs)]
pub(crate) use crate::cache::verif_rt::vs;
pub(crate) use crate::cache::vk_cfg as cfg;
use std::time::{Duration, SystemTime, UNIX_EPOCH};
use crate::cache::clock::{Clock, ClockType};

/// Harness clock: `UNIX_EPOCH + (secs, nanos)` read from a static the harness sets.
#[derive(Clone)]
pub(crate) struct VkClock;
pub(crate) static mut NOW_SECS: u64 = 0;
pub(crate) static mut NOW_NANOS: u32 = 0;
impl Clock for VkClock {
    fn now(&self) -> SystemTime {
        // the clock is a user-supplied callback: other threads may run while it executes
        vs::schedule_point(vs::S_USER);
        unsafe { UNIX_EPOCH + Duration::new(NOW_SECS, NOW_NANOS) }
    }
}
pub(crate) fn set_now(secs: u64, nanos: u32) { unsafe { NOW_SECS = secs; NOW_NANOS = nanos; } }
pub(crate) fn clock() -> ClockType { Box::new(VkClock) }
pub(crate) fn time(secs: u64, nanos: u32) -> SystemTime { UNIX_EPOCH + Duration::new(secs, nanos) }

// NOTE: never decompose a SystemTime in a harness (duration_since + Duration accessors stall CBMC:
// > 60 s for one call); build the expected SystemTime from (secs, nanos) with `time()` and compare.

pub(crate) fn any_nanos() -> u32 { let n: u32 = kani::any(); kani::assume(n < 1_000_000_000); n }
