//! Harnesses for src/cache/cached.rs — whole-CacheD steps: C02 C04 C05 C07 C08 C10 C11 C13 C17 C18.
//! A CacheD is built by struct literal from real components (real Store, AdmissionPolicy, TTLTicker with the
//! real evict hook, CommandExecutor with its real worker closure stashed), in an arbitrary state that
//! satisfies the representation invariant (DESIGN.md §2).
#![allow(unused_imports, dead_code, static_mut_refs)]
use super::*;
use crate::cache::vk_support as sup;
use sup::vs;
use crate::cache::stats::verif_kani as stk;
use crate::cache::store::verif_kani as sk;
use crate::cache::store::verif_kani::AEntry;
use crate::cache::store::stored_value::verif_kani as svk;
use crate::cache::policy::cache_weight::verif_kani as cwk;
use crate::cache::policy::admission_policy::verif_kani as apk;
use crate::cache::lfu::tiny_lfu::verif_kani as tlk;
use crate::cache::lfu::frequency_counter::verif_kani as fck;
use crate::cache::lfu::doorkeeper::verif_kani as dkk;
use crate::cache::expiration::verif_kani as exk;
use crate::cache::command::command_executor::verif_kani as cek;
use crate::cache::command::command_executor::verif_kani::CmdView;
use crate::cache::command::acknowledgement::verif_kani as ackk;
use crate::cache::config::verif_kani as cfk;
use crate::cache::pool::verif_kani as plk;
use crate::cache::unique_id::increasing_id_generator::verif_kani as idk;
use crate::cache::command::CommandStatus;
use crate::cache::buffer_event::BufferEvent;
use crate::cache::put_or_update::verif_kani as pouk;
use std::task::Poll;
use crate::cache::lfu::tiny_lfu::TinyLFU;
use crate::cache::command::acknowledgement::CommandAcknowledgement;

pub(crate) const POOL: usize = 3;
pub(crate) const FIRST_FRESH_ID: u64 = 10;

pub(crate) struct World {
    pub cache: CacheD<u64, u64>,
    pub stats: Arc<ConcurrentStatsCounter>,
    pub worker: usize,
    pub sweeper: usize,
    pub rx: crossbeam_channel::Receiver<BufferEvent>,
}

/// empty CacheD built from CONCRETE scalars only (limit 1, nothing used); symbolic limits are poked in place
/// afterwards with `set_limits` — a symbolic scalar inside a struct that is moved (memcpy) makes every later
/// read of that struct a symbolic byte-array read and multiplies the formula size by ~15.
pub(crate) fn vk_world(qcap: usize, lfu: TinyLFU) -> World {
    unsafe { vs::MONITOR = crate::cache::vk_cfg::LOCK_EDGES; vs::EDGES_ON = crate::cache::vk_cfg::LOCK_EDGES; }
    let stats = stk::vk_fresh();
    let config = cfk::vk_config(1, qcap, 1, 2);
    let store = sk::vk_store(stats.clone());
    let cw = cwk::vk_cache_weight(1, 0, stats.clone());
    let (policy, rx) = apk::vk_policy(cw, lfu, stats.clone(), 2);
    let policy = Arc::new(policy);
    let pool = plk::vk_pool(1, 2, policy.clone());
    let sweeper = crate::cache::verif_rt::thread::spawned();
    let ttl_ticker = CacheD::<u64, u64>::ttl_ticker(&config, store.clone(), policy.clone());
    exk::vk_classify(&ttl_ticker);
    let (command_executor, worker) = cek::vk_executor(store.clone(), policy.clone(), stats.clone(), ttl_ticker.clone(), qcap);
    let cache = CacheD { config, store, command_executor, admission_policy: policy, pool, ttl_ticker, id_generator: idk::vk_idgen(FIRST_FRESH_ID), is_shutting_down: AtomicBool::new(false) };
    World { cache, stats, worker, sweeper, rx }
}
/// let the (parked) worker continue: a fresh body of the real worker closure on the same queue
pub(crate) fn resume_worker(w: &World) {
    let c = &w.cache;
    let slot = cek::vk_respawn_worker(&c.command_executor, c.store.clone(), c.admission_policy.clone(), w.stats.clone(), c.ttl_ticker.clone());
    cek::vk_run_worker(slot);
}
pub(crate) fn set_limits(w: &World, max: Weight, used: Weight) { cwk::vk_set_limits(apk::vk_cw(&w.cache.admission_policy), max, used); }
pub(crate) fn plain_lfu() -> TinyLFU { tlk::vk_tiny_lfu(fck::vk_zero_sketch(8), dkk::vk_doorkeeper_exact(), 0, 1000) }

/// abstract description of one key of the pool: store entry + charged weight
#[derive(Clone, Copy, PartialEq, Eq)]
pub(crate) struct AKey { pub e: AEntry, pub weight: Weight, pub shard: usize }  // shard: CONCRETE expiry-index shard of the entry's expiry (expiry second is assumed congruent)

/// install key i (key 101+i, id i+1, hash i+1) consistently in store, weight map and expiry index (RI1, RI4)
pub(crate) fn install(w: &World, i: usize, k: &AKey) {
    if !k.e.present { return; }
    let key = sk::key_of(i);
    sk::vk_place(&w.cache.store, i, key, svk::vk_stored(k.e.value, k.e.id, k.e.expiry.map(|d| sup::time(d.0, d.1)), k.e.soft_deleted));
    cwk::vk_place(apk::vk_cw(&w.cache.admission_policy), i, k.e.id, key, cfk::vk_hash(&key), k.weight);
    if let Some(d) = k.e.expiry { exk::vk_index_place(&w.cache.ttl_ticker, k.shard, i, k.e.id, sup::time(d.0, d.1)); }
}
pub(crate) fn any_key(i: usize) -> AKey {
    let w: Weight = kani::any();
    kani::assume(w >= 1 && w <= (1i64 << 40));
    let e = sk::any_entry((i + 1) as KeyId);
    let shard = match e.expiry { Some(d) => (d.0 % 2) as usize, None => 0 };
    AKey { e, weight: w, shard }
}
/// key with a CONCRETE shape (present or not, with or without TTL) and symbolic attributes (value, weight,
/// expiry instant, soft-delete mark).  Concrete shapes keep the model maps' occupancy constant, which is what
/// makes CBMC's symbolic execution of the real code tractable (see DESIGN.md §1.9).
pub(crate) fn shaped_key(i: usize, present: bool, with_ttl: bool) -> AKey {
    let w: Weight = kani::any();
    kani::assume(w >= 1 && w <= (1i64 << 40));
    // expiry of a held TTL key: CONCRETE second (5000 + i, so its index shard i % 2 is concrete for CBMC), symbolic
    // nanoseconds; the clock, every TTL and every new expiry stay fully symbolic, so all orderings are covered
    let e = (5000 + i as u64, sup::any_nanos());
    let shard = i % 2;
    AKey { e: AEntry { present, value: kani::any(), id: (i + 1) as KeyId, expiry: if with_ttl { Some(e) } else { None }, soft_deleted: if present { kani::any() } else { false } }, weight: w, shard }
}
/// world shapes: which pool keys are held and which of them carry a TTL
#[derive(Clone, Copy)]
pub(crate) struct Shape { pub present: [bool; POOL], pub ttl: [bool; POOL] }
/// canonical shape: key 101 held with TTL, key 102 held without TTL, key 103 absent
pub(crate) const SHAPE_A: Shape = Shape { present: [true, true, false], ttl: [true, false, false] };
/// all three held, two with TTL (pressure / same-shard cases)
pub(crate) const SHAPE_B: Shape = Shape { present: [true, true, true], ttl: [true, true, false] };
pub(crate) const SHAPE_EMPTY: Shape = Shape { present: [false, false, false], ttl: [false, false, false] };

pub(crate) fn shaped_keys(shape: Shape) -> [AKey; POOL] {
    [shaped_key(0, shape.present[0], shape.ttl[0]), shaped_key(1, shape.present[1], shape.ttl[1]), shaped_key(2, shape.present[2], shape.ttl[2])]
}
/// any limit that accommodates the held keys; installs the keys and pokes limit / total in place
pub(crate) fn populate(w: &World, keys: &[AKey; POOL]) -> Weight {
    let max: Weight = kani::any();
    kani::assume(max >= 1 && max <= (1i64 << 42));
    let mut sum: Weight = 0;
    let mut i = 0;
    while i < POOL { if keys[i].e.present { sum += keys[i].weight; } i += 1; }
    kani::assume(sum <= max);
    i = 0;
    while i < POOL { install(w, i, &keys[i]); i += 1; }
    set_limits(w, max, sum);
    max
}
/// world + keys + limit for a concrete shape, spliced into the harness function as statements (a macro, not a
/// function, for two reasons: the command queue's slot array must be a LOCAL of the harness so that queued
/// commands live in typed stack memory; and returning the world together with symbolic data in one tuple would
/// move it through a temporary that mixes concrete and symbolic bytes).
macro_rules! mk_world {
    ($w:ident, $keys:ident, $max:ident, $qcap:expr, $shape:expr) => {
        let $keys = shaped_keys($shape);
        let mut __qs = cek::vk_slots();
        let $w = vk_world($qcap, plain_lfu());
        cek::vk_attach(&$w.cache.command_executor, &mut __qs);
        let $max = populate(&$w, &$keys);
    };
}
macro_rules! mk_any_world {
    ($w:ident, $keys:ident, $max:ident, $qcap:expr) => {
        let $keys = [any_key(0), any_key(1), any_key(2)];
        let mut __qs = cek::vk_slots();
        let $w = vk_world($qcap, plain_lfu());
        cek::vk_attach(&$w.cache.command_executor, &mut __qs);
        let $max = populate(&$w, &$keys);
    };
}
macro_rules! mk_empty_world {
    ($w:ident, $qcap:expr, $max:expr) => {
        let mut __qs = cek::vk_slots();
        let $w = vk_world($qcap, plain_lfu());
        cek::vk_attach(&$w.cache.command_executor, &mut __qs);
        set_limits(&$w, $max, 0);
    };
}
/// does the concrete world hold exactly the abstract keys (store + weights + expiry index)?
pub(crate) fn world_matches(w: &World, keys: &[AKey; POOL]) -> bool {
    let cw = apk::vk_cw(&w.cache.admission_policy);
    let mut ok = true;
    let mut sum: i128 = 0;
    let mut i = 0;
    while i < POOL {
        let k = &keys[i];
        if !sk::check_entry(&w.cache.store, i, &k.e) { ok = false; }
        let we = cwk::vk_entry(cw, k.e.id);
        if k.e.present {
            if we != Some((sk::key_of(i), cfk::vk_hash(&sk::key_of(i)), k.weight)) { ok = false; }
            sum += k.weight as i128;
            match k.e.expiry {
                Some(d) => { if exk::vk_find(&w.cache.ttl_ticker, k.e.id) != Some(((d.0 % 2) as usize, sup::time(d.0, d.1))) || exk::vk_count(&w.cache.ttl_ticker, k.e.id) != 1 { ok = false; } }
                None => { if exk::vk_find(&w.cache.ttl_ticker, k.e.id).is_some() { ok = false; } }
            }
        } else {
            if we.is_some() { ok = false; }
            if exk::vk_find(&w.cache.ttl_ticker, k.e.id).is_some() { ok = false; }
        }
        i += 1;
    }
    ok && cwk::vk_used(cw) as i128 == sum
}
fn any_now() -> (u64, u32) {
    let now = (kani::any::<u64>(), sup::any_nanos());
    kani::assume(now.0 <= (1u64 << 40));
    sup::set_now(now.0, now.1);
    now
}

// =========================================================================================== C02 reads
/// C02 / P3: all seven read entry points on an arbitrary cache at an arbitrary instant agree with the
/// abstract map (and therefore with each other): a value is returned iff the queried key has a present,
/// not soft-deleted, unexpired entry, and it is exactly that entry's value — under the identity-like hash
/// and under a CONSTANT key hash function (all keys collide in the sketch).  Reads change nothing but the
/// hit/miss counters and the access buffer.
#[kani::proof] #[kani::unwind(6)] fn c02_read_get() { read_variant_agrees(0); }
#[kani::proof] #[kani::unwind(6)] fn c02_read_get_ref() { read_variant_agrees(1); }
#[kani::proof] #[kani::unwind(6)] fn c02_read_map_get() { read_variant_agrees(2); }
#[kani::proof] #[kani::unwind(6)] fn c02_read_map_get_ref() { read_variant_agrees(3); }
#[kani::proof] #[kani::unwind(12)] fn c02_read_multi_get() { read_variant_agrees(4); }
#[kani::proof] #[kani::unwind(6)] fn c02_read_multi_get_iterator() { read_variant_agrees(5); }
#[kani::proof] #[kani::unwind(6)] fn c02_read_multi_get_map_iterator() { read_variant_agrees(6); }
fn read_variant_agrees(variant: u8) {
    mk_world!(w, keys, _max, 2, SHAPE_A);
    let now = any_now();
    unsafe { cfk::CONST_HASH = if kani::any() { Some(5) } else { None }; }
    let q: usize = kani::any();
    kani::assume(q <= POOL);
    let key = sk::key_of(q);
    let expect = if q < POOL && sk::readable(&keys[q].e, now) { Some(keys[q].e.value) } else { None };
    let c = &w.cache;
    let got: Option<u64> = match variant {
        0 => c.get(&key),
        1 => c.get_ref(&key).map(|r| { assert!(*r.key() == key, "C02: get_ref refers to the queried key"); *r.value().value_ref() }),
        2 => c.map_get(&key, |v| v),
        3 => c.map_get_ref(&key, |sv| *sv.value_ref()),
        4 => { let m = c.multi_get(vec![&key]); assert!(m.len() == 1, "C02: multi_get answers every requested key"); let r = *m.get(&key).unwrap(); core::mem::forget(m); r }
        5 => { let mut it = c.multi_get_iterator(vec![&key]); let r = it.next(); assert!(r.is_some() && it.next().is_none(), "C02: the iterator yields one answer per requested key"); r.unwrap() }
        _ => { let mut it = c.multi_get_map_iterator(vec![&key], |v| v); let r = it.next(); assert!(r.is_some() && it.next().is_none(), "C02: the mapping iterator yields one answer per requested key"); r.unwrap() }
    };
    assert!(got == expect, "C02: every read variant returns exactly the current value of the key, or absent");
    assert!(world_matches(&w, &keys), "C03: reads change nothing in the store, the weights or the expiry index");
    assert!(w.stats.hits() + w.stats.misses() == 1, "C16: one lookup, one hit or miss");
    assert!((w.stats.hits() == 1) == expect.is_some(), "C16: hit iff a value was returned");
    assert!(plk::vk_buffered(&w.cache.pool) as u64 + w.stats.access_added() + w.stats.access_dropped() == w.stats.hits(), "C15: a hit adds exactly one access record, a miss none");
    assert!(cek::vk_queue_len(&w.cache.command_executor) == 0, "C11: reads queue nothing");
    kani::cover!(expect.is_some(), "hit");
    kani::cover!(q < POOL && keys[q].e.present && keys[q].e.soft_deleted, "soft-deleted key read");
    kani::cover!(q < POOL && keys[q].e.present && !keys[q].e.soft_deleted && keys[q].e.expiry.is_some() && expect.is_none(), "expired, unswept key read");
    kani::cover!(q == POOL, "never-written key read");
    vs::edge_covers();
    core::mem::forget(w);
}

/// C02 / P3: multi-key reads over two solver-chosen (possibly equal) keys: one answer per requested key, in
/// request order for the iterators, each equal to the single-key answer.
#[kani::proof] #[kani::unwind(12)] fn c02_two_keys_multi_get() { multi_key_reads(0); }
#[kani::proof] #[kani::unwind(6)] fn c02_two_keys_iterator() { multi_key_reads(1); }
#[kani::proof] #[kani::unwind(6)] fn c02_two_keys_map_iterator() { multi_key_reads(2); }
fn multi_key_reads(variant: u8) {
    mk_world!(w, keys, _max, 2, SHAPE_A);
    let now = any_now();
    let q1: usize = kani::any();
    let q2: usize = kani::any();
    kani::assume(q1 <= POOL && q2 <= POOL);
    let (k1, k2) = (sk::key_of(q1), sk::key_of(q2));
    let e1 = if q1 < POOL && sk::readable(&keys[q1].e, now) { Some(keys[q1].e.value) } else { None };
    let e2 = if q2 < POOL && sk::readable(&keys[q2].e, now) { Some(keys[q2].e.value) } else { None };
    let c = &w.cache;
    match variant {
        0 => {
            let m = c.multi_get(vec![&k1, &k2]);
            assert!(m.get(&k1) == Some(&e1) && m.get(&k2) == Some(&e2) && m.len() == if q1 == q2 { 1 } else { 2 }, "C02: multi_get maps every requested key to its current value or absent");
            core::mem::forget(m);
        }
        1 => {
            let mut it = c.multi_get_iterator(vec![&k1, &k2]);
            assert!(it.next() == Some(e1) && it.next() == Some(e2) && it.next().is_none(), "C02: multi_get_iterator answers in request order, no key skipped or duplicated");
        }
        _ => {
            let mut it = c.multi_get_map_iterator(vec![&k1, &k2], |v| v.wrapping_add(1));
            assert!(it.next() == Some(e1.map(|v| v.wrapping_add(1))) && it.next() == Some(e2.map(|v| v.wrapping_add(1))) && it.next().is_none(), "C02: multi_get_map_iterator maps each answer in request order");
        }
    }
    assert!(world_matches(&w, &keys), "C03: reads change nothing");
    kani::cover!(e1.is_some() && e2.is_none() && q1 != q2, "one hit and one miss");
    kani::cover!(q1 == q2 && e1.is_some(), "same key requested twice");
    vs::edge_covers();
    core::mem::forget(w);
}

// =========================================================================================== C07 put (client side)
fn ttl_any() -> ((u64, u32), Duration) {
    let t = (kani::any::<u64>(), sup::any_nanos());
    kani::assume(t.0 <= (1u64 << 40));
    (t, Duration::new(t.0, t.1))
}
/// what a poll would return, read directly (done flag, then status) without registering a waker: a Waker's
/// vtable holds plain function pointers, and CBMC then explores every function of compatible signature -
/// including the stashed thread bodies - as a call target.  poll()/wake semantics are C12's own harnesses.
/// acknowledgements are never dropped by a harness (dropping the last Arc would run Waker's drop through its
/// function-pointer vtable, for which CBMC explores every function of compatible signature as a target)
type Ack = core::mem::ManuallyDrop<Arc<CommandAcknowledgement>>;
fn hold(r: crate::cache::command::command_executor::CommandSendResult) -> Ack { core::mem::ManuallyDrop::new(r.unwrap()) }
fn status_of(ack: &Ack) -> Poll<CommandStatus> { if ackk::vk_is_done(ack) { Poll::Ready(ackk::vk_status(ack)) } else { Poll::Pending } }

/// C07/C05/C11 / P2: any of the four put variants from the caller's side, on an arbitrary cache, for a key in
/// any life-cycle state.  Readable key => answered on the spot with Rejected(KeyAlreadyExists), nothing queued,
/// nothing changed.  Key that reads absent => never that reason; exactly one Put / PutWithTTL command is
/// queued carrying the key, a fresh id, the configured hash, the right weight (explicit, or computed with the
/// TTL flag iff a TTL is given), the value and the TTL; its acknowledgement is pending; the cache state itself
/// is untouched by the client step.
#[kani::proof] #[kani::unwind(6)] fn c07_put_client_step_q0() { c07_put_client_step_for(0); }
#[kani::proof] #[kani::unwind(6)] fn c07_put_client_step_q1() { c07_put_client_step_for(1); }
#[kani::proof] #[kani::unwind(6)] fn c07_put_client_step_q2() { c07_put_client_step_for(2); }
#[kani::proof] #[kani::unwind(6)] fn c07_put_client_step_q3() { c07_put_client_step_for(3); }
fn c07_put_client_step_for(q: usize) {
    mk_world!(w, keys, _max, 2, SHAPE_A);
    let now = any_now();
    let key = sk::key_of(q);
    let v: u64 = kani::any();
    let wv: Weight = kani::any();
    kani::assume(wv >= 1);
    let (_t, ttl) = ttl_any();
    let variant: u8 = kani::any();
    kani::assume(variant < 4);
    let c = &w.cache;
    let r = match variant { 0 => c.put(key, v), 1 => c.put_with_weight(key, v, wv), 2 => c.put_with_ttl(key, v, ttl), _ => c.put_with_weight_and_ttl(key, v, wv, ttl) };
    assert!(r.is_ok(), "C13: a running cache accepts the call");
    let ack = hold(r);
    let st = status_of(&ack);
    let present = q < POOL && keys[q].e.present;
    let readable = q < POOL && sk::readable(&keys[q].e, now);
    let exists = Poll::Ready(CommandStatus::Rejected(RejectionReason::KeyAlreadyExists));
    let qlen = cek::vk_queue_len(&c.command_executor);
    if readable {
        assert!(st == exists, "C07: put of a readable key is rejected with 'key already exists'");
        assert!(qlen == 0, "C07/C11: ... on the spot: nothing is queued");
    } else if present && !keys[q].e.soft_deleted {
        // past its time-to-live but not yet swept
        if sup::cfg::KF_F4 { kani::cover!(st == exists, "KF F4: put of a key past its TTL but not yet swept is rejected as 'key already exists'"); }
        else { assert!(st != exists, "C07: a key that reads as absent (past its TTL) is never rejected as existing"); }
    } else if !present {
        assert!(st == Poll::Pending, "C07/C12: a put of an absent key is decided by admission later: acknowledgement pending");
        assert!(qlen == 1, "C11: exactly one command is queued per put that reaches the queue");
        let exp_w = match variant { 0 => cfk::W_PLAIN, 2 => cfk::W_TTL, _ => wv };
        let cmd = cek::vk_peek(&c.command_executor, 0).unwrap();
        let exp = if variant >= 2 { CmdView::PutTTL { key, id: FIRST_FRESH_ID, hash: cfk::vk_hash(&key), weight: exp_w, value: v, ttl } }
                  else { CmdView::Put { key, id: FIRST_FRESH_ID, hash: cfk::vk_hash(&key), weight: exp_w, value: v } };
        assert!(cmd == exp, "C07/C08: the queued command carries key, fresh id, hash, weight (TTL-aware), value and TTL of the call");
        assert!(cek::vk_ack_ptr(&c.command_executor, 0) == Some(Arc::as_ptr(&ack)), "C11: the caller holds the acknowledgement of exactly the queued command");
    }
    assert!(world_matches(&w, &keys), "C07: the caller's side of a put never changes value, weight or expiry of any key");
    // covers are guarded by the (concrete) shape of the target key so that each family member satisfies them on its own
    kani::cover!(!present || (readable && variant == 3), "existing key, weight+ttl variant");
    kani::cover!(present || variant == 2, "absent key, ttl variant");
    kani::cover!(!present || keys[q].e.soft_deleted, "soft-deleted, delete not yet applied");
    vs::edge_covers();
    core::mem::forget(w);
}

/// C05/C07 / P2 (end to end, small concrete world): a put of a key that is past its TTL but not yet swept, or
/// soft-deleted with its Delete pending.  Whatever the caller's side decides (today: rejected, finding F4), once the
/// worker has applied what was queued the accounting must hold: total == sum of the weights of exactly the held
/// keys, every held key charged under the id its store entry carries.  One held TTL key of weight 10, limit 1000,
/// incoming weight 5 (concrete: no memory pressure, the eviction path plays no role here).
#[kani::proof] #[kani::unwind(6)] fn c05_put_of_expired_unswept_key() { put_of_unreadable_held_key(false, false); }
#[kani::proof] #[kani::unwind(6)] fn c05_put_ttl_of_expired_unswept_key() { put_of_unreadable_held_key(true, false); }
#[kani::proof] #[kani::unwind(6)] fn c05_put_of_soft_deleted_key() { put_of_unreadable_held_key(false, true); }
/// put variant and the reason the key is unreadable are CONCRETE per harness (expired: tick at second 6000 against an
/// expiry in second 5000, any nanoseconds; or soft-deleted): whether the put gets queued must be a constant for CBMC -
/// a conditionally queued command has a symbolic discriminant and the worker would explore every command arm
fn put_of_unreadable_held_key(ttl_variant: bool, soft_deleted: bool) {
    let mut keys = shaped_keys(Shape { present: [true, false, false], ttl: [true, false, false] });
    keys[0].weight = 10;
    keys[0].e.soft_deleted = soft_deleted;
    let mut __qs = cek::vk_slots();
    let w = vk_world(2, plain_lfu());
    cek::vk_attach(&w.cache.command_executor, &mut __qs);
    install(&w, 0, &keys[0]);
    set_limits(&w, 1000, 10);
    let now = if soft_deleted { any_now() } else { let n = (6000u64, sup::any_nanos()); sup::set_now(n.0, n.1); n };
    assert!(!sk::readable(&keys[0].e, now), "harness: the key is unreadable");
    let c = &w.cache;
    let v: u64 = kani::any();
    // the put variant is concrete per harness: a queued command whose kind is symbolic makes CBMC explore the eviction path
    let ack = hold(if !ttl_variant { c.put_with_weight(101, v, 5) } else { c.put_with_weight_and_ttl(101, v, 5, Duration::from_secs(30)) });
    let queued = cek::vk_queue_len(&c.command_executor);
    assert!(queued <= 1, "C11: at most one command per call");
    if sup::cfg::KF_F3 {
        // While finding F3 stands (the worker charges a second id when it applies a Put for a key that is still held -
        // demonstrated by `c05_f3_put_applied_while_key_is_held`), the caller's side is what protects the accounting:
        // a put of a key that is still physically held must not reach the queue.  Once F3 is fixed this lemma is dropped
        // and the end-to-end part below takes over.
        assert!(queued == 0, "C05: a put of a key that is still physically held (expired-unswept / soft-deleted) is never queued - the worker would charge a second id for the same store entry (finding F3) and the first id's weight would stay charged");
        kani::cover!(true, "end reached");
        core::mem::forget(w);
        return;
    }
    if queued == 1 {
        cek::vk_run_worker(w.worker);
        assert!(status_of(&ack) != Poll::Pending, "C12: the worker acknowledged the put");
    }
    let cw = apk::vk_cw(&c.admission_policy);
    let held = sk::vk_peek(&c.store, &101);
    let expected_total: Weight = match held { Some(sv) => cwk::vk_entry(cw, sv.key_id()).map(|x| x.2).unwrap_or(-1), None => 0 };
    assert!(expected_total >= 0, "C05: every held key is charged under the id its store entry carries");
    assert!(c.total_weight_used() == expected_total, "C05: at quiescence the total equals the sum of the weights of exactly the held keys (no weight stays charged for a replaced entry)");
    assert!(cwk::vk_len(cw) == if held.is_some() { 1 } else { 0 }, "C05: no id stays charged without a held key");
    kani::cover!(queued == 1, "opt: the put of an unreadable but still held key was queued");
    kani::cover!(true, "end reached");
    vs::edge_covers();
    core::mem::forget(w);
}

/// C05 / F3 demonstrated: the worker applies Put(k, fresh id) while k is still held under another id (the state two puts
/// of one key reach when the second is issued before the first was applied).  One-key world, concrete weights, no
/// pressure.  On the unchanged tree the total then exceeds the weights of the held keys (known finding F3); with F3
/// fixed the same harness asserts the accounting.
#[kani::proof]
#[kani::unwind(6)]
fn c05_f3_put_applied_while_key_is_held() {
    let mut keys = shaped_keys(Shape { present: [true, false, false], ttl: [false, false, false] });
    keys[0].weight = 10;
    keys[0].e.soft_deleted = false;
    let mut __qs = cek::vk_slots();
    let w = vk_world(2, plain_lfu());
    cek::vk_attach(&w.cache.command_executor, &mut __qs);
    install(&w, 0, &keys[0]);
    set_limits(&w, 1000, 10);
    any_now();
    let c = &w.cache;
    let d = crate::cache::key_description::KeyDescription::new(101u64, FIRST_FRESH_ID, cfk::vk_hash(&101), 5);
    let ack = hold(c.command_executor.send(crate::cache::command::CommandType::Put(d, 77)));
    cek::vk_run_worker(w.worker);
    assert!(status_of(&ack) == Poll::Ready(CommandStatus::Accepted), "C06: fits: accepted");
    let cw = apk::vk_cw(&c.admission_policy);
    let held = sk::vk_peek(&c.store, &101).unwrap();
    let held_weight = cwk::vk_entry(cw, held.key_id()).map(|x| x.2).unwrap_or(-1);
    let consistent = c.total_weight_used() == held_weight && cwk::vk_len(cw) == 1;
    if sup::cfg::KF_F3 {
        kani::cover!(!consistent, "KF F3: a Put applied while the key is already held (two puts of one key before the first is applied): both ids stay charged (total 15, held weight 5), the first id's weight is never released");
    } else {
        assert!(consistent, "C05: at quiescence the total equals the sum of the weights of exactly the held keys");
    }
    kani::cover!(true, "end reached");
    vs::edge_covers();
    core::mem::forget(w);
}

/// C18 lock-order witnesses on a small CONCRETE world (the order in which locks are taken along a path does not depend
/// on the data, so these two paths are driven with concrete values and cost seconds): (a) the worker admits a put under
/// pressure and evicts a TTL key through its REAL delete hook; (b) the REAL sweeper evicts an expired key through the REAL
/// evict hook.  Their lock-order edges join the union graph of C18 (a worker path that takes the expiry-index lock while it
/// holds the total-weight lock closes a cycle with the sweeper's path).  Also checked: the eviction / the sweep leave the
/// accounting consistent.
#[kani::proof]
#[kani::unwind(6)]
fn c18_worker_evicts_ttl_key_through_real_hook() {
    let keys = [AKey { e: AEntry { present: true, value: 7, id: 1, expiry: Some((5000, 0)), soft_deleted: false }, weight: 10, shard: 0 },
                AKey { e: AEntry { present: false, value: 0, id: 2, expiry: None, soft_deleted: false }, weight: 1, shard: 0 },
                AKey { e: AEntry { present: false, value: 0, id: 3, expiry: None, soft_deleted: false }, weight: 1, shard: 0 }];
    let mut __qs = cek::vk_slots();
    let w = vk_world(2, plain_lfu());
    cek::vk_attach(&w.cache.command_executor, &mut __qs);
    let mut __vs = sk::vk_value_storage();
    sk::vk_use_value_storage(&w.cache.store, &mut __vs);
    let mut __ws = cwk::vk_weight_storage();
    cwk::vk_use_weight_storage(apk::vk_cw(&w.cache.admission_policy), &mut __ws);
    install(&w, 0, &keys[0]);
    set_limits(&w, 12, 10);
    sup::set_now(4000, 0);
    let c = &w.cache;
    let ack = hold(c.put_with_weight(104, 9, 5));
    cek::vk_run_worker(w.worker);
    assert!(status_of(&ack) == Poll::Ready(CommandStatus::Accepted), "C06: the colder resident is evicted, the put is accepted");
    assert!(sk::vk_peek(&c.store, &101).is_none() && cwk::vk_entry(apk::vk_cw(&c.admission_policy), 1).is_none() && c.total_weight_used() == 5, "C05: the evicted key is released completely");
    assert!(c.get(&104) == Some(9), "C03: the accepted key is readable");
    kani::cover!(true, "end reached");
    vs::edge_covers();
    core::mem::forget(w);
}
#[kani::proof]
#[kani::unwind(6)]
fn c18_sweeper_evicts_expired_key_through_real_hook() {
    let keys = [AKey { e: AEntry { present: true, value: 7, id: 1, expiry: Some((5000, 0)), soft_deleted: false }, weight: 10, shard: 0 },
                AKey { e: AEntry { present: false, value: 0, id: 2, expiry: None, soft_deleted: false }, weight: 1, shard: 0 },
                AKey { e: AEntry { present: false, value: 0, id: 3, expiry: None, soft_deleted: false }, weight: 1, shard: 0 }];
    let mut __qs = cek::vk_slots();
    let w = vk_world(2, plain_lfu());
    cek::vk_attach(&w.cache.command_executor, &mut __qs);
    install(&w, 0, &keys[0]);
    set_limits(&w, 12, 10);
    sup::set_now(5002, 0);                       // shard 0 is due, the key expired two seconds ago
    let c = &w.cache;
    exk::vk_run_sweeper(w.sweeper, 1);
    assert!(sk::vk_peek(&c.store, &101).is_none() && cwk::vk_entry(apk::vk_cw(&c.admission_policy), 1).is_none() && c.total_weight_used() == 0 && exk::vk_find(&c.ttl_ticker, 1).is_none(), "C10: the expired key is removed from store, weights and index, its weight released");
    assert!(w.stats.keys_deleted() == 1 && w.stats.weight_removed() == 10, "C16: the swept key and its weight are counted");
    kani::cover!(true, "end reached");
    vs::edge_covers();
    core::mem::forget(w);
}

// =========================================================================================== C04 delete
/// C04/C05/C16 / P2: delete(k) on an arbitrary cache: (a) as soon as the call returns — before the worker has
/// run — no read variant returns k; nothing else changed; exactly one Delete is queued.  (b) after the worker
/// applied it: Accepted iff k was physically held, then k is gone from store, weights and expiry index, the
/// total dropped by exactly k's weight, other keys untouched; else Rejected(KeyDoesNotExist) and nothing
/// changed.  (c) k can be put again (not 'already exists').
#[kani::proof] #[kani::unwind(6)] fn c04_delete_hides_then_releases_q0() { c04_delete_hides_then_releases_for(0); }
#[kani::proof] #[kani::unwind(6)] fn c04_delete_hides_then_releases_q1() { c04_delete_hides_then_releases_for(1); }
#[kani::proof] #[kani::unwind(6)] fn c04_delete_hides_then_releases_q2() { c04_delete_hides_then_releases_for(2); }
#[kani::proof] #[kani::unwind(6)] fn c04_delete_hides_then_releases_q3() { c04_delete_hides_then_releases_for(3); }
fn c04_delete_hides_then_releases_for(q: usize) {
    mk_world!(w, keys, _max, 2, SHAPE_A);
    let now = any_now();
    let key = sk::key_of(q);
    let c = &w.cache;
    let used0 = c.total_weight_used();
    let r = c.delete(key);
    assert!(r.is_ok(), "C13: a running cache accepts delete");
    let ack = hold(r);
    // (a) immediate invisibility
    let read_variant: bool = kani::any();
    let seen = if read_variant { c.get(&key) } else { c.get_ref(&key).map(|r| *r.value().value_ref()) };
    assert!(seen.is_none(), "C04: once delete(k) has returned no read returns k, even before the acknowledgement");
    let mut marked = keys;
    if q < POOL && keys[q].e.present { marked[q].e.soft_deleted = true; }
    assert!(world_matches(&w, &marked), "C04: the caller's side only marks the entry deleted");
    assert!(cek::vk_queue_len(&c.command_executor) == 1 && cek::vk_peek(&c.command_executor, 0) == Some(CmdView::Delete { key }), "C11: exactly one Delete command is queued");
    assert!(status_of(&ack) == Poll::Pending, "C12: pending until the worker has applied it");
    // (b) the worker applies it
    cek::vk_run_worker(w.worker);
    let held = q < POOL && keys[q].e.present;
    let mut after = marked;
    if held { after[q].e.present = false; }
    assert!(status_of(&ack) == Poll::Ready(if held { CommandStatus::Accepted } else { CommandStatus::Rejected(RejectionReason::KeyDoesNotExist) }), "C04: Accepted iff the key was held, else Rejected(KeyDoesNotExist)");
    assert!(world_matches(&w, &after), "C04: an accepted delete removes entry, weight and expiry entry of k and nothing else; a rejected one changes nothing");
    assert!(c.total_weight_used() == used0 - if held { keys[q].weight } else { 0 }, "C04/C05: the total drops by exactly the deleted key's weight");
    assert!(w.stats.keys_deleted() == if held { 1 } else { 0 } && w.stats.weight_removed() == if held { keys[q].weight as u64 } else { 0 }, "C16: one key and its weight counted as removed");
    assert!(cek::vk_queue_len(&c.command_executor) == 0 && unsafe { vs::PARKED }, "C11: the worker consumed the command and waits for the next");
    // (c) the key can be put again
    let again = hold(c.put_with_weight(key, 5, 1));
    assert!(status_of(&again) == Poll::Pending && cek::vk_queue_len(&c.command_executor) == 1, "C04: a deleted key can be put again (not 'already exists')");
    let _ = now;
    kani::cover!(true, "end reached");
    kani::cover!(!held || keys[q].e.soft_deleted, "second delete while the first is still pending");
    vs::edge_covers();
    core::mem::forget(w);
}

static mut G_CACHE: *const CacheD<u64, u64> = core::ptr::null();
static mut G_DELETE_RETURNED: bool = false;
fn interfering_delete(_site: u32) {
    unsafe {
        let r = (&*G_CACHE).delete(102);
        if let Ok(a) = r { core::mem::forget(a); }
        G_DELETE_RETURNED = true;
    }
}
/// C04 / P4: another thread calls delete(k) while THIS thread holds a get_ref guard on k (the guard keeps the
/// store shard locked).  Whenever that delete has returned, no later read may return k - in particular the
/// delete must not "succeed" by skipping its soft-delete mark because the shard was busy.  (With the real
/// DashMap the deleting thread waits for the guard; the lock model turns that placement into an infeasible
/// path, so on code that waits this harness has nothing to observe and passes.)
#[kani::proof]
#[kani::unwind(6)]
fn c04_delete_while_reader_holds_guard() {
    mk_world!(w, keys, _max, 2, SHAPE_A);
    let now = any_now();
    let c = &w.cache;
    kani::assume(!keys[1].e.soft_deleted);
    unsafe { G_CACHE = c as *const CacheD<u64, u64>; G_DELETE_RETURNED = false; }
    let guard = c.get_ref(&102);
    assert!(guard.is_some(), "C02: a live key without TTL is readable");
    vs::set_hook(interfering_delete, 1);
    let _ = c.total_weight_used();          // any operation of this thread while it still holds the guard
    vs::clear_hook();
    drop(guard);
    if unsafe { G_DELETE_RETURNED } {
        assert!(c.get(&102).is_none() && c.get_ref(&102).is_none(), "C04: once delete(k) has returned no read returns k (even if a reader held a reference while delete ran)");
    }
    kani::cover!(unsafe { G_DELETE_RETURNED }, "opt: delete returned while the reader still held its guard (infeasible when delete waits for the guard)");
    let _ = now;
    vs::edge_covers();
    core::mem::forget(w);
}

static mut G_PUT_STATUS: Option<Poll<CommandStatus>> = None;
fn interfering_put(_site: u32) {
    unsafe {
        let r = (&*G_CACHE).put_with_weight(102, 77, 3);
        if let Ok(a) = r { let a = core::mem::ManuallyDrop::new(a); G_PUT_STATUS = Some(status_of(&a)); }
    }
}
/// C07 / P4: another thread calls put(k) for a READABLE key k while this thread is inside put_or_update(k)
/// (which holds the store entry's write guard while it consults the clock).  Whenever that put has returned it
/// must have been rejected with 'key already exists' - in particular it must not slip through because the
/// existence check could not look at a busy shard.  (With the real DashMap the put waits for the guard; the
/// lock model makes that placement infeasible, so on code that waits this harness has nothing to observe.)
#[kani::proof]
#[kani::unwind(6)]
fn c07_put_while_writer_holds_guard() {
    mk_world!(w, keys, _max, 2, SHAPE_A);
    let _now = any_now();
    let c = &w.cache;
    kani::assume(!keys[1].e.soft_deleted);
    unsafe { G_CACHE = c as *const CacheD<u64, u64>; G_PUT_STATUS = None; }
    vs::set_hook(interfering_put, 1);
    let r = c.put_or_update(pouk::vk_request(102, None, None, Some(Duration::from_secs(30)), false));
    vs::clear_hook();
    let _a = hold(r);
    if let Some(st) = unsafe { G_PUT_STATUS } {
        assert!(st == Poll::Ready(CommandStatus::Rejected(RejectionReason::KeyAlreadyExists)), "C07: a put of a readable key is rejected with 'key already exists', whatever else is going on with that key");
    }
    assert!(sk::vk_peek(&c.store, &102).map(|s| *s.value_ref()) == Some(keys[1].e.value), "C07: the existing value is untouched");
    kani::cover!(unsafe { G_PUT_STATUS.is_some() }, "the racing put returned");
    vs::edge_covers();
    core::mem::forget(w);
}

// =========================================================================================== C08 put_or_update
fn add_ttl(now: (u64, u32), t: (u64, u32)) -> (u64, u32) {
    let n = now.1 as u64 + t.1 as u64;
    if n >= 1_000_000_000 { (now.0 + t.0 + 1, (n - 1_000_000_000) as u32) } else { (now.0 + t.0, n as u32) }
}

/// C08/C10/C05 / P3: put_or_update with every well-formed request shape on a key in every life-cycle state.
/// Readable key: value and/or expiry change exactly as requested, the other stays, visible on return, the
/// expiry index follows the new expiry; an explicit weight is queued as UpdateWeight and, once the worker has
/// applied it, is the key's charged weight (total adjusted by the difference).  Absent key: exactly the
/// command the corresponding put would queue.  Other keys are never touched.
#[kani::proof] #[kani::unwind(6)] fn c08_put_or_update_step_q0_k0() { c08_put_or_update_step_for(0, Some(0)); }
#[kani::proof] #[kani::unwind(6)] fn c08_put_or_update_step_q0_k1() { c08_put_or_update_step_for(0, Some(1)); }
#[kani::proof] #[kani::unwind(6)] fn c08_put_or_update_step_q0_k2() { c08_put_or_update_step_for(0, Some(2)); }
#[kani::proof] #[kani::unwind(6)] fn c08_put_or_update_step_q1_k0() { c08_put_or_update_step_for(1, Some(0)); }
#[kani::proof] #[kani::unwind(6)] fn c08_put_or_update_step_q1_k1() { c08_put_or_update_step_for(1, Some(1)); }
#[kani::proof] #[kani::unwind(6)] fn c08_put_or_update_step_q1_k2() { c08_put_or_update_step_for(1, Some(2)); }
#[kani::proof] #[kani::unwind(6)] fn c08_put_or_update_step_q2() { c08_put_or_update_step_for(2, None); }
#[kani::proof] #[kani::unwind(6)] fn c08_put_or_update_step_q3() { c08_put_or_update_step_for(3, None); }
/// `kind`: for held keys the TTL part of the request is concrete per harness (0: TTL untouched, 1: new TTL, 2: remove
/// TTL) - with all four request fields symbolic at once the harness did not finish in 15 min; value and weight stay symbolic
fn c08_put_or_update_step_for(q: usize, kind: Option<u8>) {
    mk_world!(w, keys, max, 2, SHAPE_A);
    let now = any_now();
    let key = sk::key_of(q);
    let value: Option<u64> = if kani::any() { Some(kani::any()) } else { None };
    let weight: Option<Weight> = if kani::any() { let x: Weight = kani::any(); kani::assume(x >= 1 && x <= (1i64 << 40)); Some(x) } else { None };
    let (t, ttl_d) = ttl_any();
    let ttl: Option<Duration> = match kind { Some(1) => Some(ttl_d), Some(_) => None, None => if kani::any() { Some(ttl_d) } else { None } };
    let remove: bool = match kind { Some(2) => true, Some(_) => false, None => kani::any() };
    kani::assume((value.is_some() || weight.is_some() || ttl.is_some() || remove) && !(ttl.is_some() && remove));
    let present = q < POOL && keys[q].e.present;
    let readable = q < POOL && sk::readable(&keys[q].e, now);
    // documented precondition of the put path: a value must be supplied when the key does not exist
    if !present { kani::assume(value.is_some()); }
    let c = &w.cache;
    let used0 = c.total_weight_used();
    // F6: removing the TTL of a key whose charged weight is <= the expiry-entry size panics after the entry was changed
    let f6_region = present && remove && keys[q].e.expiry.is_some() && weight.is_none() && value.is_none() && keys[q].weight <= 24;
    if sup::cfg::KF_F6 && f6_region {
        kani::cover!(true, "KF F6: remove_time_to_live on a key of weight <= 24 (e.g. put_with_weight_and_ttl(k,v,10,ttl)): weight - 24 <= 0 trips assert!(weight > 0) after store and index were already changed");
        core::mem::forget(w);
        return;
    }
    let r = c.put_or_update(pouk::vk_request(key, value, weight, ttl, remove));
    assert!(r.is_ok(), "C13: a running cache accepts the call");
    let ack = hold(r);
    let mut cv: Option<(bool, bool, bool, Weight, Option<u64>)> = None;   // facts about the in-place update, for the covers below
    let qlen = cek::vk_queue_len(&c.command_executor);
    if !present {
        // acts as the corresponding put
        let exp_w = match weight { Some(x) => x, None => if ttl.is_some() { cfk::W_TTL } else { cfk::W_PLAIN } };
        let exp = match ttl { Some(d) => CmdView::PutTTL { key, id: FIRST_FRESH_ID, hash: cfk::vk_hash(&key), weight: exp_w, value: value.unwrap(), ttl: d },
                              None => CmdView::Put { key, id: FIRST_FRESH_ID, hash: cfk::vk_hash(&key), weight: exp_w, value: value.unwrap() } };
        assert!(qlen == 1 && cek::vk_peek(&c.command_executor, 0) == Some(exp), "C08: for an absent key put_or_update queues exactly the command of the corresponding put");
        assert!(status_of(&ack) == Poll::Pending, "C12: decided by admission later");
        assert!(world_matches(&w, &keys), "C08: nothing else changes");
    } else if !readable {
        // F5: the entry is dying (soft-deleted with its Delete pending, or past its TTL): the upsert is applied to it in place
        if sup::cfg::KF_F5 { kani::cover!(qlen == 0 || cek::vk_peek(&c.command_executor, 0).map(|x| matches!(x, CmdView::UpdateWeight { .. })).unwrap_or(false), "KF F5: put_or_update of a soft-deleted or expired-unswept key updates the dying entry in place instead of acting as a put; the accepted upsert is lost when the pending delete / sweep removes the entry"); }
        else { assert!(qlen == 1 && matches!(cek::vk_peek(&c.command_executor, 0), Some(CmdView::Put { .. }) | Some(CmdView::PutTTL { .. })), "C08: for a key that reads as absent put_or_update behaves like the corresponding put"); }
    } else {
        let old = keys[q];
        let mut exp_keys = keys;
        if let Some(x) = value { exp_keys[q].e.value = x; }
        exp_keys[q].e.expiry = if remove { None } else if ttl.is_some() { Some(add_ttl(now, t)) } else { old.e.expiry };
        assert!(world_matches(&w, &exp_keys), "C08/C10: value and expiry change exactly as requested, the other is untouched, the expiry index follows, other keys untouched (weights change only via the worker)");
        assert!(c.get(&key) == if sk::readable(&exp_keys[q].e, now) { Some(exp_keys[q].e.value) } else { None }, "C08: the change is visible as soon as the call returns");
        // which weight update is queued
        let ttl_added = old.e.expiry.is_none() && exp_keys[q].e.expiry.is_some();
        let ttl_removed = old.e.expiry.is_some() && exp_keys[q].e.expiry.is_none();
        let exp_weight: Option<Weight> = match weight {
            Some(x) => Some(x),
            None => match value { Some(_) => Some(if ttl.is_some() { cfk::W_TTL } else { cfk::W_PLAIN }),
                                  None => if ttl_added { Some(old.weight + 24) } else if ttl_removed { Some(old.weight - 24) } else { None } } };
        match exp_weight {
            None => { assert!(qlen == 0 && status_of(&ack) == Poll::Ready(CommandStatus::Accepted), "C08: nothing to re-weigh: accepted on the spot, nothing queued"); }
            Some(x) => {
                assert!(qlen == 1 && cek::vk_peek(&c.command_executor, 0) == Some(CmdView::UpdateWeight { id: old.e.id, weight: x }), "C08: the weight to apply is queued for the key's id (explicit weight, else recomputed, else adjusted by the expiry-entry size)");
                // the worker applies it
                let f1_region = (x as i128 - old.weight as i128) > (max as i128 - used0 as i128);
                if !(sup::cfg::KF_F1 && f1_region) {
                    cek::vk_run_worker(w.worker);
                    assert!(status_of(&ack) == Poll::Ready(CommandStatus::Accepted), "C08/C12: the weight update is acknowledged as accepted");
                    exp_keys[q].weight = x;
                    assert!(world_matches(&w, &exp_keys), "C08: an explicitly requested weight becomes the key's charged weight once acknowledged; total adjusted by the difference");
                    assert!(c.total_weight_used() == used0 + (x - old.weight), "C05: total follows the weight change");
                }
            }
        }
        cv = Some((ttl_added, ttl_removed, old.e.expiry.is_some(), old.weight, old.e.expiry.map(|d| d.0 % 2)));
    }
    // covers of the in-place update path, placed where every family member executes them and guarded by the member's
    // concrete target shape (a cover inside a branch that is dead for a member could not be told from a vacuous one)
    let upd = present && readable;
    let (c_added, c_removed, c_had, c_w, c_par) = cv.unwrap_or((false, false, false, 0, None));
    kani::cover!(!present || (upd && (c_had || kind != Some(1) || (c_added && weight.is_none() && value.is_none()))), "TTL added: weight grows by the expiry-entry size");
    kani::cover!(!present || (upd && (!c_had || kind != Some(2) || (c_removed && weight.is_none() && value.is_none() && c_w > 24))), "TTL removed: weight shrinks by the expiry-entry size");
    kani::cover!(!present || (upd && (kind != Some(1) || (value.is_some() && ttl.is_some()))), "value and TTL changed together");
    kani::cover!(!present || (upd && (kind != Some(0) || (weight.is_some() && value.is_none() && ttl.is_none() && !remove))), "weight only");
    kani::cover!(!present || (upd && (!c_had || kind != Some(1) || (ttl.is_some() && Some(add_ttl(now, t).0 % 2) != c_par))), "TTL change moves the entry to the other index shard");
    kani::cover!(present || (ttl.is_some() && weight.is_none()), "absent key, TTL put with computed weight");
    kani::cover!(!present || (!readable && keys[q].e.soft_deleted), "upsert of a soft-deleted key");
    vs::edge_covers();
    core::mem::forget(w);
}

/// C08 / P3 (small concrete world): put_or_update on a READABLE key held with concrete weight 50 (with or without a
/// TTL, concrete per harness), limit 1000; the request's TTL part is concrete per harness (untouched / new TTL / remove),
/// value and explicit weight are symbolic options.  Checked: value and expiry change exactly as requested and are visible
/// on return, the expiry index follows, and the weight update that is queued carries EXACTLY the weight the property
/// prescribes: the explicit weight if one was given; else recomputed from a new value; else the old weight +- the
/// expiry-entry size when a TTL was added / removed; else nothing is queued and the call is accepted on the spot.
#[kani::proof] #[kani::unwind(6)] fn c08_upsert_plain_key_ttl_untouched() { upsert_small_world(false, 0); }
#[kani::proof] #[kani::unwind(6)] fn c08_upsert_plain_key_ttl_added() { upsert_small_world(false, 1); }
#[kani::proof] #[kani::unwind(6)] fn c08_upsert_plain_key_ttl_removed() { upsert_small_world(false, 2); }
#[kani::proof] #[kani::unwind(6)] fn c08_upsert_ttl_key_ttl_untouched() { upsert_small_world(true, 0); }
#[kani::proof] #[kani::unwind(6)] fn c08_upsert_ttl_key_ttl_changed() { upsert_small_world(true, 1); }
#[kani::proof] #[kani::unwind(6)] fn c08_upsert_ttl_key_ttl_removed() { upsert_small_world(true, 2); }
fn upsert_small_world(key_has_ttl: bool, kind: u8) {
    let mut keys = shaped_keys(Shape { present: [true, false, false], ttl: [key_has_ttl, false, false] });
    keys[0].weight = 50;
    keys[0].e.soft_deleted = false;
    let mut __qs = cek::vk_slots();
    let w = vk_world(2, plain_lfu());
    cek::vk_attach(&w.cache.command_executor, &mut __qs);
    install(&w, 0, &keys[0]);
    set_limits(&w, 1000, 50);
    // the clock is before the key's expiry second (5000): the key is readable
    let now = (4000u64, sup::any_nanos());
    sup::set_now(now.0, now.1);
    let value: Option<u64> = if kani::any() { Some(kani::any()) } else { None };
    let weight: Option<Weight> = if kani::any() { let x: Weight = kani::any(); kani::assume(x >= 1 && x <= 900); Some(x) } else { None };
    let t = (kani::any::<u64>(), sup::any_nanos());
    kani::assume(t.0 <= (1u64 << 40));
    let ttl: Option<Duration> = if kind == 1 { Some(Duration::new(t.0, t.1)) } else { None };
    let remove = kind == 2;
    kani::assume(value.is_some() || weight.is_some() || ttl.is_some() || remove);
    let c = &w.cache;
    let ack = hold(c.put_or_update(pouk::vk_request(101, value, weight, ttl, remove)));
    let old = keys[0];
    let mut exp = keys;
    if let Some(x) = value { exp[0].e.value = x; }
    exp[0].e.expiry = if remove { None } else if ttl.is_some() { Some(add_ttl(now, t)) } else { old.e.expiry };
    // the expiry index shard of the new expiry is not concrete: compare store entry and index explicitly
    let sv = sk::vk_peek(&c.store, &101).unwrap();
    assert!(*sv.value_ref() == exp[0].e.value && sv.key_id() == 1 && sv.expire_after() == exp[0].e.expiry.map(|d| sup::time(d.0, d.1)), "C08: value and expiry change exactly as requested, the other is untouched");
    assert!(exk::vk_find(&c.ttl_ticker, 1) == exp[0].e.expiry.map(|d| ((d.0 % 2) as usize, sup::time(d.0, d.1))) && exk::vk_count(&c.ttl_ticker, 1) == if exp[0].e.expiry.is_some() { 1 } else { 0 }, "C10: the expiry index follows the change (exactly one entry, in the shard of the current expiry)");
    assert!(c.get(&101) == Some(exp[0].e.value), "C08: the change is visible as soon as the call returns");
    let ttl_added = old.e.expiry.is_none() && exp[0].e.expiry.is_some();
    let ttl_removed = old.e.expiry.is_some() && exp[0].e.expiry.is_none();
    let exp_weight: Option<Weight> = match weight {
        Some(x) => Some(x),
        None => match value { Some(_) => Some(if ttl.is_some() { cfk::W_TTL } else { cfk::W_PLAIN }),
                              None => if ttl_added { Some(50 + 24) } else if ttl_removed { Some(50 - 24) } else { None } } };
    let qlen = cek::vk_queue_len(&c.command_executor);
    match exp_weight {
        None => assert!(qlen == 0 && status_of(&ack) == Poll::Ready(CommandStatus::Accepted), "C08: nothing to re-weigh: accepted on the spot, nothing queued"),
        Some(x) => assert!(qlen == 1 && cek::vk_peek(&c.command_executor, 0) == Some(CmdView::UpdateWeight { id: 1, weight: x }), "C08: the queued weight update carries exactly the explicitly requested weight (else the recomputed / adjusted one) for the key's id"),
    }
    assert!(cwk::vk_entry(apk::vk_cw(&c.admission_policy), 1) == Some((101, cfk::vk_hash(&101), 50)) && c.total_weight_used() == 50, "C08: the charged weight changes only when the worker applies the update");
    kani::cover!(weight.is_some() && value.is_some(), "explicit weight together with a new value");
    kani::cover!(weight.is_none() && value.is_none() || kind == 0, "TTL-only request");
    kani::cover!(true, "end reached");
    vs::edge_covers();
    core::mem::forget(w);
}

// =========================================================================================== C05/C11 worker put step
fn count_present(k: &[AKey; POOL]) -> usize { (k[0].e.present as usize) + (k[1].e.present as usize) + (k[2].e.present as usize) }

/// C05/C03/C01/C16/C10 / P2+P3: the REAL worker closure executes one queued Put / PutWithTTL (fresh id) from an
/// arbitrary cache state, with or without memory pressure.  Post (quiescence): representation invariant again —
/// store and weight map in bijection by id, total == sum of the charged weights <= limit; an accepted key is
/// stored with its value, id, expiry = now + ttl, charged with its weight and registered in the expiry index;
/// a rejected key leaves no trace and is counted as rejected; every other key is either untouched or evicted
/// completely (store entry and weight both gone); without pressure nothing is evicted.
#[kani::proof] #[kani::unwind(6)] fn c05_worker_put_step_q0() { c05_worker_put_step_for(0); }
#[kani::proof] #[kani::unwind(6)] fn c05_worker_put_step_q1() { c05_worker_put_step_for(1); }
#[kani::proof] #[kani::unwind(6)] fn c05_worker_put_step_q2() { c05_worker_put_step_for(2); }
#[kani::proof] #[kani::unwind(6)] fn c05_worker_put_step_q3() { c05_worker_put_step_for(3); }
fn c05_worker_put_step_for(q: usize) {
    mk_world!(w, keys, max, 2, SHAPE_A);
    let now = any_now();
    let key = sk::key_of(q);
    let v: u64 = kani::any();
    let wv: Weight = kani::any();
    kani::assume(wv >= 1 && wv <= (1i64 << 41));
    let (t, ttl) = ttl_any();
    let with_ttl: bool = kani::any();
    let c = &w.cache;
    let used0 = c.total_weight_used();
    let present = q < POOL && keys[q].e.present;
    // F3: the key is already physically held when the queued put is applied (two puts of one key issued before the first was applied)
    if sup::cfg::KF_F3 && present {
        kani::cover!(true, "KF F3: a Put applied while the key is already held (double put before the first is applied): both ids are charged, the store keeps one entry: weight leaked, and evicting the orphan id later removes the live entry");
        core::mem::forget(w);
        return;
    }
    let d = crate::cache::key_description::KeyDescription::new(key, FIRST_FRESH_ID, cfk::vk_hash(&key), wv);
    let ack = hold(if with_ttl { c.command_executor.send(crate::cache::command::CommandType::PutWithTTL(d, v, ttl)) } else { c.command_executor.send(crate::cache::command::CommandType::Put(d, v)) });
    cek::vk_run_worker(w.worker);
    let st = status_of(&ack);
    assert!(st != Poll::Pending && st != Poll::Ready(CommandStatus::Pending), "C12: the worker acknowledges the command it executed");
    let accepted = st == Poll::Ready(CommandStatus::Accepted);
    let cw = apk::vk_cw(&c.admission_policy);
    // the new key
    let stored = sk::vk_peek(&c.store, &key);
    if !present {
        if accepted {
            let exp_expiry = if with_ttl { Some(add_ttl(now, t)) } else { None };
            let e = AEntry { present: true, value: v, id: FIRST_FRESH_ID, expiry: exp_expiry, soft_deleted: false };
            assert!(stored.map(|s| *s.value_ref() == e.value && s.key_id() == e.id && s.expire_after() == e.expiry.map(|x| sup::time(x.0, x.1)) && !svk::vk_soft_deleted(s)).unwrap_or(false), "C05/C09: an accepted put stores value, fresh id and expiry = now + ttl");
            assert!(cwk::vk_entry(cw, FIRST_FRESH_ID) == Some((key, cfk::vk_hash(&key), wv)), "C05: an accepted put is charged under its id with its weight");
            assert!(exk::vk_find(&c.ttl_ticker, FIRST_FRESH_ID) == exp_expiry.map(|x| ((x.0 % 2) as usize, sup::time(x.0, x.1))), "C10: a TTL put registers its expiry (and only a TTL put)");
            assert!(c.get(&key) == Some(v), "C03/C12: once accepted the value is readable");
        } else {
            assert!(stored.is_none() && cwk::vk_entry(cw, FIRST_FRESH_ID).is_none() && exk::vk_find(&c.ttl_ticker, FIRST_FRESH_ID).is_none(), "C05: a rejected put leaves no trace");
            assert!(w.stats.keys_rejected() == 1, "C16: refused puts are counted as rejected");
        }
        if accepted { assert!(w.stats.keys_rejected() == 0 && w.stats.keys_added() == 1, "C16: keys added counts accepted puts"); }
    }
    // every other key: untouched, or evicted completely
    let mut sum: i128 = if accepted && !present { wv as i128 } else { 0 };
    let mut evicted = 0;
    let mut i = 0;
    while i < POOL {
        if keys[i].e.present && !(present && i == q) {
            let in_store = sk::vk_peek(&c.store, &sk::key_of(i)).is_some();
            let charged = cwk::vk_entry(cw, keys[i].e.id);
            if in_store {
                assert!(sk::check_entry(&c.store, i, &keys[i].e) && charged == Some((sk::key_of(i), cfk::vk_hash(&sk::key_of(i)), keys[i].weight)), "C03: a key that stays is bit-identical (value, id, expiry, weight)");
                sum += keys[i].weight as i128;
            } else {
                assert!(charged.is_none(), "C05: an evicted key is released completely: store entry and weight");
                evicted += 1;
            }
        }
        i += 1;
    }
    if !present {
        assert!(c.total_weight_used() as i128 == sum, "C05: at quiescence the total equals the sum of the weights of exactly the held keys");
        assert!(c.total_weight_used() <= max, "C01: every put leaves the total at or below the limit");
        if max - used0 >= wv { assert!(accepted && evicted == 0, "C03/C06: without memory pressure the put is accepted and nothing is evicted"); }
        if wv > max { assert!(st == Poll::Ready(CommandStatus::Rejected(RejectionReason::KeyWeightIsGreaterThanCacheWeight)) && evicted == 0, "C06: heavier than the cache: rejected, nothing changes"); }
        assert!(w.stats.keys_deleted() == evicted as u64, "C16: evictions are counted as deleted keys");
    }
    kani::cover!(!present && accepted && evicted >= 1, "accepted after evicting");
    kani::cover!(!present && !accepted && evicted >= 1, "victims evicted, still rejected");
    kani::cover!(!present && accepted && with_ttl, "TTL put accepted");
    vs::edge_covers();
    core::mem::forget(w);
}

// =========================================================================================== C11 burst
static mut W_PTR: *const World = core::ptr::null();
/// blocking hook: a client blocked on the full command queue lets the worker run
fn run_worker_hook(_class: u8) { unsafe { resume_worker(&*W_PTR); } }

/// C11/C04/C12 / P3: a burst of unawaited writes on an empty cache with a command queue of capacity 1 or 2:
/// put(k) ; delete(k) ; put(k2) — issued back to back without awaiting.  With capacity 1 the second and third
/// send meet a FULL queue: the sender blocks, the worker runs (blocking hook), the send completes — nothing is
/// dropped or duplicated.  Afterwards the worker drains the rest.  Post: every command was dequeued exactly
/// once in FIFO order; acknowledgements resolve to the outcome of the in-order execution (Accepted, Accepted,
/// Accepted); k is absent (a put followed by a delete always leaves the key absent), k2 present; weight and
/// statistics equal those of the in-order reference run.
/// C11 / P3: put(k) then delete(k) issued back to back WITHOUT awaiting (queue large enough, worker idle until both are
/// queued): both commands are queued, executed once each in submission order, and k is absent afterwards.
#[kani::proof]
#[kani::unwind(6)]
fn c11_put_then_delete_unawaited() {
    mk_empty_world!(w, 4, 1000);
    any_now();
    let c = &w.cache;
    let v: u64 = kani::any();
    let a1 = hold(c.put_with_weight(101, v, 10));
    let a2 = hold(c.delete(101));
    assert!(cek::vk_queue_len(&c.command_executor) == 2, "C11: every write that reaches the queue is queued exactly once (a delete issued right after an unawaited put included)");
    cek::vk_run_worker(w.worker);
    let (sent, received, fifo_ok) = cek::vk_chan_stats(&c.command_executor);
    assert!(sent == 2 && received == 2 && fifo_ok, "C11: each queued write is dequeued exactly once, in submission order");
    assert!(status_of(&a1) == Poll::Ready(CommandStatus::Accepted) && status_of(&a2) == Poll::Ready(CommandStatus::Accepted), "C11/C12: acknowledgements resolve to the outcome of the in-order execution");
    assert!(c.get(&101).is_none() && sk::vk_peek(&c.store, &101).is_none() && c.total_weight_used() == 0, "C11: a put followed without awaiting by a delete of the same key leaves the key absent and its weight released");
    assert!(w.stats.keys_added() == 1 && w.stats.keys_deleted() == 1, "C16: statistics of the in-order run");
    kani::cover!(true, "end reached");
    vs::edge_covers();
    core::mem::forget(w);
}
#[kani::proof] #[kani::unwind(6)] fn c11_unawaited_burst_queue_of_1() { unawaited_burst_in_order(1); }
#[kani::proof] #[kani::unwind(6)] fn c11_unawaited_burst_queue_of_2() { unawaited_burst_in_order(2); }
fn unawaited_burst_in_order(qcap: usize) {
    mk_empty_world!(w, qcap, 1000);
    any_now();
    let c = &w.cache;
    unsafe { W_PTR = &w as *const World; vs::BLOCK_HOOK = Some(run_worker_hook); crossbeam_channel::SEND_BLOCK_IS_FAILURE = true; }
    // concrete weights: the ordering obligations do not depend on them, and a symbolic weight makes CBMC explore the
    // eviction path of every queued put (admission itself is C06's business)
    let (w1, w2): (Weight, Weight) = (10, 20);
    let a1 = hold(c.put_with_weight(101, 7, w1));
    let a2 = hold(c.delete(101));
    let a3 = hold(c.put_with_weight(102, 8, w2));
    // whatever is still queued is executed now
    resume_worker(&w);
    unsafe { vs::BLOCK_HOOK = None; }
    let (sent, received, fifo_ok) = cek::vk_chan_stats(&c.command_executor);
    assert!(sent == 3 && received == 3 && fifo_ok, "C11: every queued write is dequeued exactly once, in submission order, even when the queue was full");
    assert!(status_of(&a1) == Poll::Ready(CommandStatus::Accepted) && status_of(&a2) == Poll::Ready(CommandStatus::Accepted) && status_of(&a3) == Poll::Ready(CommandStatus::Accepted),
            "C11/C12: acknowledgements resolve to the outcome of the in-order execution");
    assert!(c.get(&101).is_none() && sk::vk_peek(&c.store, &101).is_none(), "C11: a put followed without awaiting by a delete of the same key leaves the key absent");
    assert!(c.get(&102) == Some(8), "C11: the later put is applied");
    assert!(c.total_weight_used() == w2, "C05: weight equals that of the in-order reference run");
    assert!(w.stats.keys_added() == 2 && w.stats.keys_deleted() == 1 && w.stats.keys_rejected() == 0, "C16: statistics equal those of the in-order reference run");
    kani::cover!(unsafe { vs::BLOCKING_OPS } > 0 || qcap != 1, "queue of one: sends met a full queue");
    vs::edge_covers();
    core::mem::forget(w);
}

// =========================================================================================== C13 shutdown
/// C13 / P2: shutdown() on a cache holding two keys with one write already queued (unawaited): shutdown
/// returns (also when its own Shutdown command meets a full queue of capacity 1: the worker makes room);
/// afterwards EVERY write entry point returns Err and every read returns absent / empty; once the worker has
/// run, the acknowledgement handed out before shutdown is resolved with its real outcome (it was queued ahead
/// of Shutdown), the cache is empty, and a second shutdown() is a no-op.
#[kani::proof] #[kani::unwind(6)] fn c13_shutdown_gate_and_drain_queue_of_1() { shutdown_gate_and_drain(1); }
#[kani::proof] #[kani::unwind(6)] fn c13_shutdown_gate_and_drain_queue_of_2() { shutdown_gate_and_drain(2); }
fn shutdown_gate_and_drain(qcap: usize) {
    mk_world!(w, keys, _max, qcap, SHAPE_A);
    any_now();
    let c = &w.cache;
    unsafe { W_PTR = &w as *const World; vs::BLOCK_HOOK = Some(run_worker_hook); crossbeam_channel::SEND_BLOCK_IS_FAILURE = true; }
    let pending = hold(c.delete(102));
    c.shutdown();
    // the gate
    let api: u8 = kani::any();
    kani::assume(api < 13);
    match api {
        0 => assert!(c.put(104, 1).is_err(), "C13: put after shutdown returns an error"),
        1 => assert!(c.put_with_weight(104, 1, 1).is_err(), "C13: put_with_weight after shutdown returns an error"),
        2 => assert!(c.put_with_ttl(104, 1, Duration::from_secs(1)).is_err(), "C13: put_with_ttl after shutdown returns an error"),
        3 => assert!(c.put_with_weight_and_ttl(104, 1, 1, Duration::from_secs(1)).is_err(), "C13: put_with_weight_and_ttl after shutdown returns an error"),
        4 => assert!(c.put_or_update(pouk::vk_request(101, Some(1), None, None, false)).is_err(), "C13: put_or_update after shutdown returns an error"),
        5 => assert!(c.delete(101).is_err(), "C13: delete after shutdown returns an error"),
        6 => assert!(c.get(&101).is_none(), "C13: get after shutdown returns absent"),
        7 => assert!(c.get_ref(&101).is_none(), "C13: get_ref after shutdown returns absent"),
        8 => assert!(c.map_get(&101, |v| v).is_none(), "C13: map_get after shutdown returns absent"),
        9 => assert!(c.map_get_ref(&101, |v| *v.value_ref()).is_none(), "C13: map_get_ref after shutdown returns absent"),
        10 => { let m = c.multi_get(vec![&101]); assert!(m.is_empty(), "C13: multi_get after shutdown returns empty"); core::mem::forget(m); }
        11 => assert!(c.multi_get_iterator(vec![&101]).next().is_none(), "C13: multi_get_iterator after shutdown yields nothing"),
        _ => assert!(c.multi_get_map_iterator(vec![&101], |v| v).next().is_none(), "C13: multi_get_map_iterator after shutdown yields nothing"),
    }
    // the worker drains
    resume_worker(&w);
    unsafe { vs::BLOCK_HOOK = None; }
    let st = status_of(&pending);
    assert!(st == Poll::Ready(CommandStatus::Accepted) || st == Poll::Ready(CommandStatus::ShuttingDown), "C13: every acknowledgement handed out before shutdown completes: real outcome if the command ran, ShuttingDown otherwise - never pending");
    assert!(st == Poll::Ready(CommandStatus::Accepted), "C13/C11: a command queued ahead of Shutdown is executed and reports its real outcome");
    assert!(sk::vk_len(&c.store) == 0 && cwk::vk_len(apk::vk_cw(&c.admission_policy)) == 0 && c.total_weight_used() == 0 && exk::vk_index_len(&c.ttl_ticker, 0) == 0 && exk::vk_index_len(&c.ttl_ticker, 1) == 0, "C13: shutdown empties store, weights and expiry index");
    assert!(!cek::vk_receiver_alive(&c.command_executor) || unsafe { vs::PARKED }, "C13: the worker has stopped executing commands");
    c.shutdown();
    assert!(cek::vk_queue_len(&c.command_executor) == 0, "C13: a repeated shutdown queues nothing and returns");
    assert!(!apk::vk_keep_running(&c.admission_policy) && !exk::vk_keep_running(&c.ttl_ticker), "C13: consumer and sweeper are told to stop");
    kani::cover!(unsafe { vs::BLOCKING_OPS } > 0 || qcap != 1, "shutdown command met a full queue");
    kani::cover!(api == 12, "last API probed");
    vs::edge_covers();
    core::mem::forget(w);
}

/// C13/C12 / P2: a write that was queued BEHIND the Shutdown command (it passed the gate just before the flag
/// was set) is answered ShuttingDown by the worker's drain loop - never left pending, never executed.
#[kani::proof]
#[kani::unwind(6)]
fn c13_command_behind_shutdown_is_answered() {
    mk_empty_world!(w, 4, 1000);
    any_now();
    let c = &w.cache;
    let before = hold(c.put_with_weight(101, 1, 10));
    let sd = hold(c.command_executor.shutdown());
    let d = crate::cache::key_description::KeyDescription::new(102u64, 11, 2, 10);
    let behind = hold(c.command_executor.send(crate::cache::command::CommandType::Put(d, 5)));
    let behind2 = hold(c.command_executor.send(crate::cache::command::CommandType::Delete(101)));
    cek::vk_run_worker(w.worker);
    assert!(status_of(&before) == Poll::Ready(CommandStatus::Accepted), "C13: a command ahead of Shutdown runs and reports its real outcome");
    assert!(status_of(&sd) == Poll::Ready(CommandStatus::Accepted), "C13: the Shutdown command itself is acknowledged");
    assert!(status_of(&behind) == Poll::Ready(CommandStatus::ShuttingDown) && status_of(&behind2) == Poll::Ready(CommandStatus::ShuttingDown), "C13: everything queued behind Shutdown is answered ShuttingDown");
    assert!(sk::vk_peek(&c.store, &102).is_none() && sk::vk_peek(&c.store, &101).is_some(), "C13: commands behind Shutdown are not executed");
    assert!(cek::vk_queue_len(&c.command_executor) == 0, "C13: the drain loop leaves nothing unanswered");
    vs::edge_covers();
    core::mem::forget(w);
}

static mut G_LATE: Option<Ack> = None;
static mut G_LATE_ERR: bool = false;
static mut G_SD: *const CommandAcknowledgement = core::ptr::null();
/// a writer that is already past the shutdown gate sends its command now - but only once the worker has taken the
/// Shutdown command (its acknowledgement is resolved), i.e. while the drain is in progress: a command that arrives
/// before that is simply part of the backlog (`c13_command_behind_shutdown_is_answered`), and a conditionally queued
/// command in front of the dispatch would make CBMC explore every command arm
fn interfering_send(_site: u32) {
    unsafe {
        if !ackk::vk_is_done(&*G_SD) { return; }
        match (&*G_CACHE).command_executor.send(crate::cache::command::CommandType::Delete(103)) {
            Ok(a) => { G_LATE = Some(core::mem::ManuallyDrop::new(a)); }
            Err(_) => { G_LATE_ERR = true; }
        }
    }
}
/// C13/C12 / P4: a write that already passed the shutdown gate sends its command at a solver-chosen point
/// WHILE the worker processes the Shutdown command and drains the queue (any queue / lock / flag operation of
/// the worker is a candidate point).  Whatever the point: the send either fails, or its acknowledgement is
/// resolved (real outcome or ShuttingDown) by the time the worker has nothing left to do - never pending.
#[kani::proof]
#[kani::unwind(6)]
fn c13_late_send_races_drain() {
    mk_empty_world!(w, 4, 1000);
    any_now();
    let c = &w.cache;
    unsafe { G_CACHE = c as *const CacheD<u64, u64>; G_LATE = None; G_LATE_ERR = false; }
    let sd = hold(c.command_executor.shutdown());
    let behind = hold(c.command_executor.send(crate::cache::command::CommandType::Delete(101)));
    unsafe { G_SD = Arc::as_ptr(&sd); }
    vs::set_hook(interfering_send, 2);
    // candidate points: every dequeue operation of the worker (recv / try_recv) - the window in which a late command can
    // arrive between two dequeues; placing it at every lock operation as well did not finish within 15 min
    vs::set_hook_sites(1 << vs::S_Q_RECV);
    cek::vk_run_worker(w.worker);
    vs::clear_hook();
    assert!(status_of(&sd) == Poll::Ready(CommandStatus::Accepted) && status_of(&behind) == Poll::Ready(CommandStatus::ShuttingDown), "C13: Shutdown acknowledged, the command behind it answered ShuttingDown");
    if let Some(a) = unsafe { G_LATE.as_ref() } {
        assert!(status_of(a) != Poll::Pending, "C13: every acknowledgement handed out during shutdown completes (real outcome or ShuttingDown) - no caller waits forever");
    }
    kani::cover!(unsafe { G_LATE.is_some() }, "the late send was accepted by the queue");
    kani::cover!(unsafe { G_LATE_ERR }, "opt: the late send failed (receiver already gone)");
    vs::edge_covers();
    core::mem::forget(w);
}

/// the late writer without a gate (placement is fixed per harness by `vs::set_fire_at`)
fn late_send(_site: u32) {
    unsafe {
        match (&*G_CACHE).command_executor.send(crate::cache::command::CommandType::Delete(103)) {
            Ok(a) => { G_LATE = Some(core::mem::ManuallyDrop::new(a)); }
            Err(_) => { G_LATE_ERR = true; }
        }
    }
}
/// C13/C12 / P4, per-placement family: the queue holds [Shutdown, Delete(101)]; a writer that already passed the
/// shutdown gate sends Delete(103) at exactly the k-th dequeue operation of the worker (k = 1: before Shutdown is
/// taken, 2: at the first dequeue of the drain, 3: when the drain finds the queue empty - the worker has three dequeue
/// operations in this run; the cover `the late send was accepted` is pooled over the family).
/// Whatever k: Shutdown is Accepted, the command behind it is answered ShuttingDown, and the late send either fails
/// or its acknowledgement is resolved by the time the worker has nothing left to do - never pending.
fn late_send_at_dequeue(k: u32) {
    mk_empty_world!(w, 4, 1000);
    any_now();
    let c = &w.cache;
    unsafe { G_CACHE = c as *const CacheD<u64, u64>; G_LATE = None; G_LATE_ERR = false; }
    let sd = hold(c.command_executor.shutdown());
    let behind = hold(c.command_executor.send(crate::cache::command::CommandType::Delete(101)));
    vs::set_hook(late_send, 1);
    vs::set_hook_sites(1 << vs::S_Q_RECV);
    vs::set_fire_at(k);
    cek::vk_run_worker(w.worker);
    vs::clear_hook();
    // (whether a k-th dequeue exists is a property of this run, not of C13: vacuity is guarded by the pooled cover below)
    assert!(status_of(&sd) == Poll::Ready(CommandStatus::Accepted) && status_of(&behind) == Poll::Ready(CommandStatus::ShuttingDown), "C13: Shutdown acknowledged, the command behind it answered ShuttingDown");
    if let Some(a) = unsafe { G_LATE.as_ref() } {
        assert!(status_of(a) != Poll::Pending, "C13: every acknowledgement handed out during shutdown completes (real outcome or ShuttingDown) - no caller waits forever");
        assert!(status_of(a) == Poll::Ready(CommandStatus::ShuttingDown), "C13: a command that reaches the queue after Shutdown is not executed");
    }
    assert!(cek::vk_queue_len(&c.command_executor) == 0, "C13: nothing is left queued when the worker has nothing left to do");
    kani::cover!(unsafe { G_LATE.is_some() }, "the late send was accepted by the queue");
    kani::cover!(unsafe { G_LATE_ERR }, "opt: the late send failed (receiver already gone)");
    vs::edge_covers();
    core::mem::forget(w);
}
#[kani::proof]
#[kani::unwind(7)]
fn c13_late_send_at_dequeue_1() { late_send_at_dequeue(1); }
#[kani::proof]
#[kani::unwind(7)]
fn c13_late_send_at_dequeue_2() { late_send_at_dequeue(2); }
#[kani::proof]
#[kani::unwind(7)]
fn c13_late_send_at_dequeue_3() { late_send_at_dequeue(3); }

// =========================================================================================== C10 end to end
/// C10/C05/C16 / P2: one tick of the REAL sweeper with the REAL evict hook (weights by id, then store by key)
/// on a whole CacheD at a solver-chosen instant: a held TTL key whose expiry has passed and whose shard is due
/// is removed from store, weights and index, its weight released and counted; the key without TTL is untouched.
#[kani::proof]
#[kani::unwind(6)]
fn c10_sweep_end_to_end() { sweep_end_to_end(false, 5000); }
#[kani::proof]
#[kani::unwind(6)]
fn c10_sweep_end_to_end_later_tick() { sweep_end_to_end(false, 5002); }
#[kani::proof]
#[kani::unwind(6)]
fn c10_sweep_end_to_end_other_shard() { sweep_end_to_end(false, 5001); }
/// ... with a STALE index entry in the due shard (id 9 is no longer charged: its key was deleted or evicted
/// earlier, and the same key 103... is held again under a new id): the stale entry is dropped without touching
/// anything else.
#[kani::proof]
#[kani::unwind(6)]
fn c10_sweep_with_stale_entry() { sweep_end_to_end(true, 5002); }
/// `tick_sec`: the second of the tick is concrete per harness (its shard must be a constant for CBMC); nanoseconds and
/// every expiry's nanoseconds are symbolic, the stale entry's expiry is fully symbolic
fn sweep_end_to_end(with_stale: bool, tick_sec: u64) {
    mk_world!(w, keys, _max, 2, SHAPE_A);
    // stale entry: id 9 once belonged to key 102 (held now under id 2, without TTL); its old expiry is in shard 0
    let stale_exp = (kani::any::<u64>(), sup::any_nanos());
    kani::assume(stale_exp.0 <= (1u64 << 40) && stale_exp.0 % 2 == 0);
    if with_stale { exk::vk_index_place(&w.cache.ttl_ticker, 0, 3, 9, sup::time(stale_exp.0, stale_exp.1)); }
    let now = (tick_sec, sup::any_nanos());
    sup::set_now(now.0, now.1);
    let c = &w.cache;
    let used0 = c.total_weight_used();
    exk::vk_run_sweeper(w.sweeper, 1);
    let cur = (now.0 % 2) as usize;
    let mut exp = keys;
    let mut released: Weight = 0;
    let mut removed = 0u64;
    let mut i = 0;
    while i < POOL {
        if let Some(d) = keys[i].e.expiry {
            if keys[i].e.present && keys[i].shard == cur && !sk::le(now, d) { exp[i].e.present = false; released += keys[i].weight; removed += 1; }
        }
        i += 1;
    }
    assert!(world_matches(&w, &exp), "C10: the sweep removes exactly the held keys whose expiry has passed (store, weight, index) and nothing else");
    assert!(c.total_weight_used() == used0 - released, "C10/C05: the weight of every swept key is released");
    assert!(w.stats.keys_deleted() == removed && w.stats.weight_removed() == released as u64, "C16: swept keys and their weight are counted");
    if with_stale {
        let stale_due = cur == 0 && !sk::le(now, stale_exp);
        assert!(exk::vk_index_entry(&c.ttl_ticker, 0, 9).is_some() == !stale_due, "C10: a stale entry is dropped when its old expiry comes due, and only then");
        kani::cover!(removed == 1 && stale_due, "a live key and a stale entry swept in the same tick");
        kani::cover!(removed == 0 && stale_due, "only the stale entry was due: nothing else changes");
    } else {
        kani::cover!(removed == 1 || tick_sec != 5002, "the TTL key was swept");
        kani::cover!((removed == 0 && keys[0].shard == cur) || tick_sec != 5000, "shard due but key not expired");
        kani::cover!(keys[0].e.expiry == Some(now) || tick_sec != 5000, "tick exactly at the expiry instant");
        kani::cover!((removed == 1 && keys[0].e.soft_deleted) || tick_sec != 5002, "soft-deleted key swept");
        kani::cover!((removed == 0 && keys[0].shard != cur) || tick_sec != 5001, "expired key in the other shard waits for its shard's tick");
    }
    vs::edge_covers();
    core::mem::forget(w);
}




