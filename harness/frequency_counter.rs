//! Harnesses for src/cache/lfu/frequency_counter.rs (child module: sees private items).
//! Property C14 (sketch kernels) and the C17 boundary `counters = 1`.
#![allow(unused_imports)]
use super::*;
use crate::cache::vk_support as sup;

/// C14 / P1: every packed byte value x both nibbles: increment touches only the addressed nibble,
/// +1 below 15, unchanged at 15 (no wrap, no carry into the neighbour).
#[kani::proof]
#[kani::unwind(5)]
fn c14_row_increment_kernel() {
    let b0: u8 = kani::any();
    let b1: u8 = kani::any();
    let mut row = Row(vec![b0, b1]);
    let position: u64 = kani::any();
    kani::assume(position < 4);
    let before: [u8; 4] = [row.get_at(0), row.get_at(1), row.get_at(2), row.get_at(3)];
    // get_at must read the nibble the packing defines (independent decode)
    assert!(before[0] == b0 & 0x0f && before[1] == b0 >> 4 && before[2] == b1 & 0x0f && before[3] == b1 >> 4,
            "C14: get_at decodes the addressed 4-bit counter");
    row.increment_at(position);
    let mut p = 0u64;
    while p < 4 {
        let after = row.get_at(p);
        let was = before[p as usize];
        if p == position {
            if was < 15 { assert!(after == was + 1, "C14: increment adds exactly one below saturation"); }
            else { assert!(after == 15, "C14: saturated counter stays saturated"); }
        } else {
            assert!(after == was, "C14: incrementing one counter never disturbs another");
        }
        p += 1;
    }
    kani::cover!(before[position as usize] == 15, "saturated counter reached");
    kani::cover!(position == 0 && before[1] == 15 && before[0] == 14, "neighbour saturated, low nibble about to saturate");
    kani::cover!(true, "end reached");
}

/// C14 / P1: ageing halves both counters of every byte, rounding down; clear zeroes.
#[kani::proof]
#[kani::unwind(5)]
fn c14_row_half_and_clear_kernel() {
    let b0: u8 = kani::any();
    let b1: u8 = kani::any();
    let mut row = Row(vec![b0, b1]);
    let before: [u8; 4] = [row.get_at(0), row.get_at(1), row.get_at(2), row.get_at(3)];
    row.half_counters();
    let mut p = 0u64;
    while p < 4 {
        assert!(row.get_at(p) == before[p as usize] / 2, "C14: ageing halves every counter, rounded down");
        p += 1;
    }
    kani::cover!(before[1] == 15 && before[0] == 1, "odd values in both nibbles");
    row.clear();
    assert!(row.0[0] == 0 && row.0[1] == 0, "C14: clear zeroes the row");
    kani::cover!(true, "end reached");
}

fn is_pow2(x: u64) -> bool { x != 0 && (x & (x - 1)) == 0 }

/// C14 / P1 (full width): sizing gives the least power of two >= counters, for all counters 1..=2^63.
#[kani::proof]
fn c14_next_power_2_kernel() {
    let c: u64 = kani::any();
    kani::assume(c >= 1 && c <= (1u64 << 63));
    let n = FrequencyCounter::next_power_2(c);
    assert!(is_pow2(n), "C14: sized to a power of two");
    assert!(n >= c, "C14: never smaller than requested");
    assert!(n == 1 || n / 2 < c, "C14: the least such power of two");
    kani::cover!(c == (1u64 << 63), "largest accepted value");
    kani::cover!(c == 3, "non power of two");
    kani::cover!(c == 1, "counters = 1");
}

/// Build a sketch of `total` counters with solver-chosen row contents and seeds (state construction).
fn any_sketch(total: u64, seeds: [u64; 4]) -> FrequencyCounter {
    let bytes = (total / 2) as usize;
    let mut rows: [Row; 4] = [Row(vec![0; bytes]), Row(vec![0; bytes]), Row(vec![0; bytes]), Row(vec![0; bytes])];
    let mut r = 0;
    while r < 4 {
        let mut i = 0;
        while i < bytes { rows[r].0[i] = kani::any(); i += 1; }
        r += 1;
    }
    FrequencyCounter { matrix: rows, seeds, total_counters: total }
}

/// C14 / P2: on a sketch of width 4 with arbitrary contents, seeds and hashes: `increment(h)` raises
/// `estimate(h)` by exactly one unless it is saturated, and never lowers the estimate of any other hash.
#[kani::proof]
#[kani::unwind(6)]
fn c14_sketch_increment_monotone_w4() {
    let seeds: [u64; 4] = [kani::any(), kani::any(), kani::any(), kani::any()];
    let mut fc = any_sketch(4, seeds);
    let h: u64 = kani::any();
    let other: u64 = kani::any();
    let e_h = fc.estimate(h);
    let e_o = fc.estimate(other);
    fc.increment(h);
    let e_h2 = fc.estimate(h);
    let e_o2 = fc.estimate(other);
    assert!(e_h <= 15 && e_h2 <= 15, "C14: estimates are capped at 15");
    if e_h < 15 { assert!(e_h2 == e_h + 1, "C14: a recorded access raises the estimate (not saturated)"); }
    else { assert!(e_h2 == 15, "C14: saturated estimate stays saturated"); }
    assert!(e_o2 >= e_o, "C14: incrementing one key never lowers another key's estimate");
    assert!(e_o2 <= e_o + 1, "C14: ... and raises it by at most one (collision)");
    kani::cover!(e_h == 15, "saturated");
    kani::cover!(e_o2 == e_o + 1 && other != h, "collision raised the other estimate");
    kani::cover!(e_o2 == e_o && other != h, "no collision");
    core::mem::forget(fc);
}

/// C14 / P2: `reset` halves the estimate of every hash (rounded down); `clear` zeroes it.
#[kani::proof]
#[kani::unwind(6)]
fn c14_sketch_reset_halves_w4() {
    let seeds: [u64; 4] = [kani::any(), kani::any(), kani::any(), kani::any()];
    let mut fc = any_sketch(4, seeds);
    let h: u64 = kani::any();
    let e = fc.estimate(h);
    fc.reset();
    assert!(fc.estimate(h) == e / 2, "C14: ageing halves every estimate");
    kani::cover!(e == 15, "saturated before ageing");
    kani::cover!(e == 1, "one before ageing");
    fc.clear();
    assert!(fc.estimate(h) == 0, "C14: clear zeroes every estimate");
    core::mem::forget(fc);
}

/// C14/C17 / P2: the sketch built by the real constructor is large enough for every index the
/// real increment/estimate compute, for every counters value in the bound (non powers of two and
/// `counters = 1` included), any seeds (solver-chosen by the rand model), any hash.
#[kani::proof]
#[kani::unwind(11)]
fn c14_new_sized_for_every_index() {
    let counters: u64 = kani::any();
    kani::assume(counters >= 1 && counters <= 9);
    let mut fc = FrequencyCounter::new(counters);
    assert!(is_pow2(fc.total_counters) && fc.total_counters >= counters, "C14: total counters sized to next power of two");
    let h: u64 = kani::any();
    assert!(fc.estimate(h) == 0, "C14: fresh sketch estimates zero");
    fc.increment(h);
    assert!(fc.estimate(h) == 1, "C14: one recorded access is estimated as one on a fresh sketch");
    kani::cover!(counters == 1, "counters = 1");
    kani::cover!(counters == 3, "counters = 3");
    kani::cover!(counters == 9, "counters = 9 -> 16");
    core::mem::forget(fc);
}

// ---- constructors exported to other harness modules (state construction without the random seeds)
pub(crate) fn vk_any_sketch(total: u64, seeds: [u64; 4]) -> FrequencyCounter { any_sketch(total, seeds) }
/// width-`total` sketch, zero seeds, all counters zero
pub(crate) fn vk_zero_sketch(total: u64) -> FrequencyCounter {
    let bytes = (total / 2) as usize;
    FrequencyCounter { matrix: [Row(vec![0; bytes]), Row(vec![0; bytes]), Row(vec![0; bytes]), Row(vec![0; bytes])], seeds: [0; 4], total_counters: total }
}
/// sets the 4-bit counter of `position` in every row to `value` (so that estimate(hash) == value when hash % total == position and seeds are zero)
pub(crate) fn vk_set_counter(fc: &mut FrequencyCounter, position: u64, value: u8) {
    let idx = (position / 2) as usize;
    let mut r = 0;
    while r < 4 {
        let b = fc.matrix[r].0[idx];
        fc.matrix[r].0[idx] = if position & 1 == 1 { (b & 0x0f) | (value << 4) } else { (b & 0xf0) | (value & 0x0f) };
        r += 1;
    }
}
pub(crate) fn vk_total(fc: &FrequencyCounter) -> u64 { fc.total_counters }
pub(crate) fn vk_with_seeds(mut fc: FrequencyCounter, seeds: [u64; 4]) -> FrequencyCounter { fc.seeds = seeds; fc }
