//! Harnesses / constructors for src/cache/expiration/mod.rs — property C10 (sweeper, expiry index).
#![allow(unused_imports, dead_code, static_mut_refs)]
use super::*;
use crate::cache::vk_support as sup;
use sup::vs;
use crate::cache::verif_rt::thread as vthread;

/// real constructor; the sweeper closure is stashed by the thread shim; returns (ticker, stash slot)
pub(crate) fn vk_ticker<H>(shards: usize, hook: H) -> (Arc<TTLTicker>, usize) where H: Fn(&KeyId) + Send + Sync + 'static {
    let slot = vthread::spawned();
    let t = TTLTicker::new(TTLConfig::new(shards, Duration::from_secs(5), sup::clock()), hook);
    let mut i = 0;
    while i < shards { t.shards[i].vk_set_class(if i == 0 { vs::CL_TTL_SHARD } else { vs::CL_TTL_SHARD_B }); i += 1; }
    (t, slot)
}
/// run the stashed sweeper for `ticks` ticks (it parks when the ticks are used up)
pub(crate) fn vk_run_sweeper(slot: usize, ticks: u32) {
    unsafe { crossbeam_channel::TICKS_GRANTED = ticks; vs::PARKED = false; }
    vthread::run(slot, 2);
}
pub(crate) fn vk_index_entry(t: &Arc<TTLTicker>, shard: usize, id: KeyId) -> Option<ExpireAfter> { t.shards[shard].vk_data().get(&id).copied() }
pub(crate) fn vk_index_len(t: &Arc<TTLTicker>, shard: usize) -> usize { t.shards[shard].vk_data().len() }
pub(crate) fn vk_index_place(t: &Arc<TTLTicker>, shard: usize, slot: usize, id: KeyId, e: ExpireAfter) { t.shards[shard].vk_data().vk_place(slot, id, e); }
pub(crate) fn vk_shards(t: &Arc<TTLTicker>) -> usize { t.shards.len() }
pub(crate) fn vk_keep_running(t: &Arc<TTLTicker>) -> bool { t.keep_running.vk_peek() }
/// entry for `id` in whatever shard (None if in no shard); asserts it is in at most one
pub(crate) fn vk_find(t: &Arc<TTLTicker>, id: KeyId) -> Option<(usize, ExpireAfter)> {
    let mut r = None;
    let mut i = 0;
    while i < t.shards.len() { if let Some(e) = vk_index_entry(t, i, id) { r = Some((i, e)); } i += 1; }
    r
}

static mut EVICTED: [u32; 4] = [0; 4];   // hook calls per id 0..=3
fn record_evict(id: &KeyId) { unsafe { if *id < 4 { EVICTED[*id as usize] += 1; } else { EVICTED[0] += 1; } } }
fn le(a: (u64, u32), b: (u64, u32)) -> bool { a.0 < b.0 || (a.0 == b.0 && a.1 <= b.1) }

/// C10 / P2: one sweep by the REAL sweeper closure at a solver-chosen instant over an expiry index holding up
/// to three entries (ids 1..=3) with solver-chosen expiries, each sitting in the shard of its expiry (RI4).
/// Post: an entry is handed to the evict hook and dropped from the index <=> it sits in the shard of the
/// current second and now > expiry; every other entry is untouched; the hook runs exactly once per expired
/// entry; liveness lemma: an expired entry IS swept whenever the tick second is congruent to its expiry second.
#[kani::proof]
#[kani::unwind(5)]
fn c10_one_sweep_removes_exactly_the_expired() {
    let (t, slot) = vk_ticker(2, record_evict);
    let now = (kani::any::<u64>(), sup::any_nanos());
    kani::assume(now.0 <= (1u64 << 40));
    let present: [bool; 3] = [kani::any(), kani::any(), kani::any()];
    let exp: [(u64, u32); 3] = [(kani::any(), sup::any_nanos()), (kani::any(), sup::any_nanos()), (kani::any(), sup::any_nanos())];
    let mut i = 0;
    while i < 3 {
        kani::assume(exp[i].0 <= (1u64 << 40));
        if present[i] { vk_index_place(&t, (exp[i].0 % 2) as usize, i, (i + 1) as KeyId, sup::time(exp[i].0, exp[i].1)); }
        i += 1;
    }
    unsafe { EVICTED = [0; 4]; }
    sup::set_now(now.0, now.1);
    vk_run_sweeper(slot, 1);
    assert!(unsafe { vs::PARKED }, "C10: after its tick the sweeper waits for the next tick (it did not stop)");
    let cur = (now.0 % 2) as usize; let cur64 = now.0 % 2;
    i = 0;
    while i < 3 {
        let id = (i + 1) as KeyId;
        let shard = (exp[i].0 % 2) as usize;
        let due = present[i] && shard == cur && !le(now, exp[i]);
        assert!(unsafe { EVICTED[id as usize] } == if due { 1 } else { 0 }, "C10: the sweep evicts exactly the entries of the current shard whose expiry has passed, once each");
        let still = vk_index_entry(&t, shard, id);
        if due { assert!(still.is_none(), "C10: a swept entry leaves the expiry index"); }
        else if present[i] { assert!(still == Some(sup::time(exp[i].0, exp[i].1)), "C10: an entry that has not expired (or lives in another shard) is untouched"); }
        // liveness lemma (the arithmetic half): expired + congruent second => swept by THIS tick
        if present[i] && !le(now, exp[i]) && now.0 % 2 == exp[i].0 % 2 { assert!(due, "C10: an expired entry is removed by any tick whose second is congruent to its expiry second"); }
        i += 1;
    }
    assert!(unsafe { EVICTED[0] } == 0, "C10: the hook is never called for an id that is not in the index");
    kani::cover!(present[0] && present[1] && (exp[0].0 % 2) == cur64 && (exp[1].0 % 2) == cur64 && !le(now, exp[0]) && le(now, exp[1]), "same shard: one expired, one not");
    kani::cover!(present[0] && exp[0] == now, "tick exactly at the expiry instant (not expired)");
    kani::cover!(present[0] && (exp[0].0 % 2) != cur64 && !le(now, exp[0]), "expired but in the other shard: waits for its shard's tick");
    kani::cover!(present[0] && present[1] && present[2], "three entries");
}

/// C10/C13: the sweeper stops after the tick that follows shutdown(), and clear() empties every shard.
#[kani::proof]
#[kani::unwind(5)]
fn c13_sweeper_stops_after_shutdown() {
    let (t, slot) = vk_ticker(2, record_evict);
    vk_index_place(&t, 0, 0, 1, sup::time(10, 0));
    vk_index_place(&t, 1, 0, 2, sup::time(11, 0));
    sup::set_now(5, 0);
    t.shutdown();
    t.clear();
    assert!(vk_index_len(&t, 0) == 0 && vk_index_len(&t, 1) == 0, "C13: clear empties the expiry index");
    vk_run_sweeper(slot, 3);
    assert!(!unsafe { vs::PARKED } && unsafe { crossbeam_channel::TICKS_GRANTED } == 2, "C13: the sweeper terminates at its first tick after shutdown");
}

/// C10 / P2: put / update / delete / get keep each id in exactly the shard of its CURRENT expiry (RI4),
/// for arbitrary expiries (old and new in the same or in different shards).
#[kani::proof]
#[kani::unwind(5)]
fn c10_index_tracks_current_expiry() {
    let (t, _slot) = vk_ticker(2, record_evict);
    let e1 = (kani::any::<u64>(), sup::any_nanos());
    let e2 = (kani::any::<u64>(), sup::any_nanos());
    kani::assume(e1.0 <= (1u64 << 40) && e2.0 <= (1u64 << 40));
    let (t1, t2) = (sup::time(e1.0, e1.1), sup::time(e2.0, e2.1));
    // an unrelated entry that must never be disturbed
    let other = sup::time(kani::any::<u64>() % 1024, 0);
    let other_shard = { let mut s = 0; if t.shard_index(&other) == 1 { s = 1; } s };
    t.put(7, other);
    t.put(1, t1);
    assert!(vk_find(&t, 1) == Some(((e1.0 % 2) as usize, t1)), "C10: put registers the id in the shard of its expiry second");
    assert!(t.get(&1, &t1) == Some(t1), "C10: get finds the entry via its expiry");
    let op: u8 = kani::any();
    kani::assume(op < 3);
    match op {
        0 => {
            t.update(1, &t1, t2);
            assert!(vk_find(&t, 1) == Some(((e2.0 % 2) as usize, t2)) && vk_count(&t, 1) == 1, "C10: a TTL change moves the entry to the shard of the new expiry (and only there: no stale copy stays behind)");
            kani::cover!(e1.0 % 2 == e2.0 % 2 && e1 != e2, "old and new expiry in the same shard");
            kani::cover!(e1.0 % 2 != e2.0 % 2, "old and new expiry in different shards");
        }
        1 => {
            t.delete(&1, &t1);
            assert!(vk_find(&t, 1).is_none(), "C10: delete unregisters the id");
        }
        _ => {
            t.put(2, t2);
            assert!(vk_find(&t, 2) == Some(((e2.0 % 2) as usize, t2)) && vk_find(&t, 1) == Some(((e1.0 % 2) as usize, t1)), "C10: entries are independent");
        }
    }
    assert!(vk_find(&t, 7) == Some((other_shard, other)), "C03: operations on one id never disturb another id's expiry entry");
}
/// in how many shards does `id` have an entry (must be <= 1)
pub(crate) fn vk_count(t: &Arc<TTLTicker>, id: KeyId) -> usize {
    let mut n = 0;
    let mut i = 0;
    while i < t.shards.len() { if vk_index_entry(t, i, id).is_some() { n += 1; } i += 1; }
    n
}
pub(crate) fn vk_classify(t: &Arc<TTLTicker>) {
    let mut i = 0;
    while i < t.shards.len() { t.shards[i].vk_set_class(if i == 0 { vs::CL_TTL_SHARD } else { vs::CL_TTL_SHARD_B }); i += 1; }
}
