//! Constructors / harnesses for src/cache/config/mod.rs — C17 (builder preconditions), world construction.
#![allow(unused_imports, dead_code)]
use super::*;
use crate::cache::vk_support as sup;

/// key hash used by all CacheD-level harnesses: key 101 + i  ->  hash 5 + i  (so that hash, id (1 + i) and key all differ)
pub(crate) fn vk_hash(key: &u64) -> KeyHash { key.wrapping_sub(96) }
pub(crate) static mut CONST_HASH: Option<KeyHash> = None;
fn hash_fn(key: &u64) -> KeyHash { unsafe { match CONST_HASH { Some(h) => h, None => vk_hash(key) } } }
fn weight_fn(k: &u64, v: &u64, ttl: bool) -> Weight { Calculation::perform(k, v, ttl) }

/// Config by struct literal (ConfigBuilder::new boxes a fn item, which kani-compiler 0.68 cannot compile)
pub(crate) fn vk_config(total_cache_weight: Weight, command_buffer_size: usize, pool: usize, buffer: usize) -> Config<u64, u64> {
    Config {
        key_hash_fn: Box::new(|k: &u64| hash_fn(k)),
        weight_calculation_fn: Box::new(|k: &u64, v: &u64, t: bool| weight_fn(k, v, t)),
        clock: sup::clock(),
        counters: 8,
        command_buffer_size,
        total_cache_weight,
        access_pool_size: PoolSize(pool),
        access_buffer_size: BufferSize(buffer),
        capacity: 4,
        shards: 2,
        ttl_tick_duration: Duration::from_secs(5),
    }
}
pub(crate) const W_PLAIN: Weight = 40;   // Calculation::perform(&u64, &u64, false): 8 + 8 + size_of::<WeightedKey<u64>>() = 24
pub(crate) const W_TTL: Weight = 64;     // ... + ttl_ticker_entry_size() = 8 + 16

/// C17/C08: the default weight calculation is positive and differs by exactly the expiry-index entry size.
#[kani::proof]
#[kani::unwind(2)]
fn c17_default_weight_calculation() {
    let k: u64 = kani::any();
    let v: u64 = kani::any();
    let a = Calculation::perform(&k, &v, false);
    let b = Calculation::perform(&k, &v, true);
    assert!(a == W_PLAIN && b == W_TTL, "C08: default weights: 40 without TTL, 64 with TTL for u64 keys and values");
    assert!(a > 0 && b - a == Calculation::ttl_ticker_entry_size() as Weight, "C17: default weight is positive; TTL adds the expiry-index entry size");
}
