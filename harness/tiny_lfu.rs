//! Harnesses for src/cache/lfu/tiny_lfu.rs — property C14 (window semantics, ageing threshold).
#![allow(unused_imports, dead_code)]
use super::*;
use crate::cache::lfu::frequency_counter::verif_kani as fck;
use crate::cache::lfu::doorkeeper::verif_kani as dkk;

pub(crate) fn vk_tiny_lfu(fc: FrequencyCounter, dk: DoorKeeper, total_increments: u64, reset_counters_at: u64) -> TinyLFU {
    TinyLFU { key_access_frequency: fc, door_keeper: dk, total_increments, reset_counters_at }
}
pub(crate) fn vk_total_increments(t: &TinyLFU) -> u64 { t.total_increments }
pub(crate) fn vk_sketch_mut(t: &mut TinyLFU) -> &mut FrequencyCounter { &mut t.key_access_frequency }
pub(crate) fn vk_doorkeeper_mut(t: &mut TinyLFU) -> &mut DoorKeeper { &mut t.door_keeper }
pub(crate) fn vk_record(t: &mut TinyLFU, h: u64) { t.increment_access_for(h); }

/// C14 / P2: one recorded access from an arbitrary window state (arbitrary width-4 sketch, seeds,
/// doorkeeper with solver-chosen false positives, any threshold 1..=6 and any count below it).
/// No ageing step due: estimate(h) rises by exactly one unless the sketch counter is saturated, no other
/// estimate drops.  Ageing due (count reaches the threshold): exactly then every counter is halved, the
/// doorkeeper is emptied and the count restarts — not one access earlier or later.
#[kani::proof]
#[kani::unwind(6)]
fn c14_tinylfu_one_access_step() {
    let seeds: [u64; 4] = [kani::any(), kani::any(), kani::any(), kani::any()];
    let fc = fck::vk_any_sketch(4, seeds);
    let mut dk = dkk::vk_doorkeeper_with_fp();
    let pre_member: u64 = kani::any();
    if kani::any() { dkk::vk_place(&mut dk, 0, pre_member); }
    let threshold: u64 = kani::any();
    kani::assume(threshold >= 1 && threshold <= 6);
    let count: u64 = kani::any();
    kani::assume(count < threshold);
    let mut t = vk_tiny_lfu(fc, dk, count, threshold);
    let h: u64 = kani::any();
    let o: u64 = kani::any();
    let e_h = t.estimate(h);
    let e_o = t.estimate(o);
    let sk_h = t.key_access_frequency.estimate(h);
    let sk_o = t.key_access_frequency.estimate(o);
    let dk_h = t.door_keeper.has(&h);
    t.increment_access_for(h);
    let ageing_due = count + 1 >= threshold;
    if !ageing_due {
        assert!(t.total_increments == count + 1, "C14: every recorded access is counted towards the ageing threshold");
        let e_h2 = t.estimate(h);
        if sk_h < 15 || !dk_h { assert!(e_h2 == e_h + 1, "C14: estimate grows with every recorded access inside a window"); }
        else { assert!(e_h2 == e_h, "C14: saturated estimate stays saturated"); }
        assert!(t.estimate(o) >= e_o, "C14: recording one key never lowers another key's estimate");
    } else {
        assert!(t.total_increments == 0, "C14: ageing restarts the count");
        assert!(dkk::vk_members(&t.door_keeper) == 0, "C14: ageing clears the first-access filter");
        // the access being recorded went to the sketch iff the doorkeeper already reported the key
        let exp_h = if dk_h && sk_h < 15 { (sk_h + 1) / 2 } else { sk_h / 2 };
        assert!(t.key_access_frequency.estimate(h) == exp_h, "C14: ageing halves every counter (rounded down)");
        if o != h {
            let so = t.key_access_frequency.estimate(o);
            assert!(so == sk_o / 2 || so == (sk_o + 1) / 2, "C14: ageing halves every counter (other key)");
        }
    }
    kani::cover!(ageing_due && count > 0, "ageing at the threshold");
    kani::cover!(!ageing_due && count + 2 == threshold, "one access before the threshold: no ageing");
    kani::cover!(!ageing_due && dk_h && sk_h == 15, "saturated key recorded");
    kani::cover!(!ageing_due && !dk_h, "first access goes to the doorkeeper");
    core::mem::forget(t);
}

/// C14 / P2: n <= 3 recorded accesses of h interleaved with two accesses of another hash, all inside one
/// window, starting from an EMPTY window (fresh sketch, empty doorkeeper with possible false positives):
/// estimate(h) >= min(n, 15).  (never under-counts)
#[kani::proof]
#[kani::unwind(6)]
fn c14_tinylfu_never_undercounts_in_window() {
    let seeds: [u64; 4] = [kani::any(), kani::any(), kani::any(), kani::any()];
    let mut fc = fck::vk_zero_sketch(4);
    let _ = &mut fc;
    let fc = FrequencyCounterSeeded::with(fc, seeds);
    let dk = dkk::vk_doorkeeper_with_fp();
    let mut t = vk_tiny_lfu(fc, dk, 0, 100);
    let h: u64 = kani::any();
    let o: u64 = kani::any();
    let n: u8 = kani::any();
    kani::assume(n <= 3);
    let mut i = 0u8;
    while i < 3 {
        if i < n { t.increment_access_for(h); }
        if i < 2 { t.increment_access_for(o); }
        i += 1;
    }
    assert!(t.estimate(h) >= n, "C14: within a window the estimate is at least the number of recorded accesses");
    kani::cover!(n == 3 && o != h, "three accesses interleaved with another key");
    kani::cover!(n == 3 && o == h, "same key");
    core::mem::forget(t);
}

struct FrequencyCounterSeeded;
impl FrequencyCounterSeeded {
    fn with(fc: FrequencyCounter, seeds: [u64; 4]) -> FrequencyCounter { fck::vk_with_seeds(fc, seeds) }
}

/// C14: new() starts an empty window whose ageing threshold is the configured number of counters.
#[kani::proof]
#[kani::unwind(11)]
fn c14_tinylfu_new() {
    let counters: u64 = kani::any();
    kani::assume(counters >= 1 && counters <= 8);
    let t = TinyLFU::new(counters);
    assert!(t.reset_counters_at == counters && t.total_increments == 0, "C14: ageing threshold is the configured number of counters");
    assert!(dkk::vk_members(&t.door_keeper) == 0, "C14: a new window starts with an empty first-access filter");
    assert!(fck::vk_total(&t.key_access_frequency) >= counters, "C14: sketch sized for the configured counters");
    kani::cover!(counters == 1, "counters = 1 (ageing on every access)");
    kani::cover!(counters == 5, "non power of two");
    core::mem::forget(t);
}

/// C14: clear() zeroes counters, count and doorkeeper (arbitrary width-4 window state).
#[kani::proof]
#[kani::unwind(6)]
fn c14_tinylfu_clear() {
    let seeds: [u64; 4] = [kani::any(), kani::any(), kani::any(), kani::any()];
    let fc = fck::vk_any_sketch(4, seeds);
    let mut dk = dkk::vk_doorkeeper_with_fp();
    dkk::vk_place(&mut dk, 0, kani::any());
    let mut t = vk_tiny_lfu(fc, dk, kani::any(), kani::any());
    let h: u64 = kani::any();
    t.clear();
    assert!(t.total_increments == 0 && t.key_access_frequency.estimate(h) == 0 && dkk::vk_members(&t.door_keeper) == 0, "C14: clear empties the sketch, the filter and the count");
    core::mem::forget(t);
}
