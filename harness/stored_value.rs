//! Harnesses for src/cache/store/stored_value.rs and src/cache/clock.rs — property C09.
#![allow(unused_imports, dead_code)]
use super::*;
use crate::cache::vk_support as sup;
use std::time::UNIX_EPOCH;

pub(crate) fn vk_stored<V>(value: V, key_id: KeyId, expire_after: Option<ExpireAfter>, is_soft_deleted: bool) -> StoredValue<V> {
    StoredValue { value, key_id, expire_after, is_soft_deleted }
}
pub(crate) fn vk_soft_deleted<V>(s: &StoredValue<V>) -> bool { s.is_soft_deleted }

const MAX_SECS: u64 = 1u64 << 40;

/// deadline = t + ttl in (secs, nanos) with explicit carry — the oracle's own arithmetic
fn add(t: (u64, u32), ttl: (u64, u32)) -> (u64, u32) {
    let n = t.1 as u64 + ttl.1 as u64;
    if n >= 1_000_000_000 { (t.0 + ttl.0 + 1, (n - 1_000_000_000) as u32) } else { (t.0 + ttl.0, n as u32) }
}
/// the SystemTime of a (secs, nanos) pair — never decompose a SystemTime (duration_since stalls the solver)
fn st(d: (u64, u32)) -> SystemTime { sup::time(d.0, d.1) }
fn le(a: (u64, u32), b: (u64, u32)) -> bool { a.0 < b.0 || (a.0 == b.0 && a.1 <= b.1) }

/// C09 / P1: put (with or without TTL) at instant t0, look at any t1 >= t0: alive <=> now <= t0 + ttl
/// (explicit carry arithmetic in the oracle); without TTL always alive.
#[kani::proof]
fn c09_put_then_look() {
    let t0 = (kani::any::<u64>(), sup::any_nanos());
    let t1 = (kani::any::<u64>(), sup::any_nanos());
    kani::assume(t0.0 <= MAX_SECS && t1.0 <= MAX_SECS && le(t0, t1));
    let ttl0 = (kani::any::<u64>(), sup::any_nanos());
    kani::assume(ttl0.0 <= MAX_SECS);
    let clock = sup::clock();
    let with_ttl: bool = kani::any();
    sup::set_now(t0.0, t0.1);
    let sv = if with_ttl { StoredValue::expiring(7u64, 1, Duration::new(ttl0.0, ttl0.1), &clock) } else { StoredValue::never_expiring(7u64, 1) };
    let deadline: Option<(u64, u32)> = if with_ttl { Some(add(t0, ttl0)) } else { None };
    assert!(sv.is_alive(&clock), "C09: a fresh entry is readable at the instant it was written");
    assert!(sv.expire_after() == deadline.map(st), "C09: expiry = now + ttl");
    assert!(*sv.value_ref() == 7 && sv.key_id() == 1 && !sv.is_soft_deleted, "C02: entry carries the value and id it was created with");
    sup::set_now(t1.0, t1.1);
    let exp_alive1 = match deadline { None => true, Some(d) => le(t1, d) };
    assert!(sv.is_alive(&clock) == exp_alive1, "C09: readable exactly while the clock has not passed the expiry");
    kani::cover!(with_ttl && Some(t1) == deadline, "now == expiry (boundary: still served)");
    kani::cover!(with_ttl && deadline.map(|d| t1 == add(d, (0, 1))).unwrap_or(false), "now == expiry + 1ns (boundary: not served)");
    kani::cover!(with_ttl && ttl0 == (0, 0) && t1 == t0, "zero TTL");
    kani::cover!(!with_ttl && t1.0 == MAX_SECS, "no TTL: never expires (large jump)");
}

/// C09/C08 / P2: from an ARBITRARY stored entry (any expiry or none, soft-deleted or not): one TTL/value
/// change at t1 (new TTL / remove TTL / neither; with or without a new value), then a look at any t2 >= t1.
/// The deadline moves exactly as requested (computed from now), the value changes only if requested, the id
/// never changes, and the entry is readable at t2 <=> not soft-deleted and t2 <= current deadline.
#[kani::proof]
fn c09_ttl_change_then_look() {
    let e0 = (kani::any::<u64>(), sup::any_nanos());
    let t1 = (kani::any::<u64>(), sup::any_nanos());
    let t2 = (kani::any::<u64>(), sup::any_nanos());
    kani::assume(e0.0 <= 2 * MAX_SECS && t1.0 <= MAX_SECS && t2.0 <= MAX_SECS && le(t1, t2));
    let ttl1 = (kani::any::<u64>(), sup::any_nanos());
    kani::assume(ttl1.0 <= MAX_SECS);
    let had_expiry: bool = kani::any();
    let soft_deleted: bool = kani::any();
    let clock = sup::clock();
    let mut sv = vk_stored(7u64, 1, if had_expiry { Some(sup::time(e0.0, e0.1)) } else { None }, soft_deleted);
    let mut deadline: Option<(u64, u32)> = if had_expiry { Some(e0) } else { None };
    sup::set_now(t1.0, t1.1);
    let mode: u8 = kani::any();
    kani::assume(mode < 3);
    let new_value: Option<u64> = if kani::any() { Some(9) } else { None };
    let ret = match mode {
        0 => sv.update(new_value, Some(Duration::new(ttl1.0, ttl1.1)), false, &clock),
        1 => sv.update(new_value, None, true, &clock),
        _ => sv.update(new_value, None, false, &clock),
    };
    let old_deadline = deadline;
    deadline = match mode { 0 => Some(add(t1, ttl1)), 1 => None, _ => deadline };
    assert!(ret == deadline.map(st) && sv.expire_after() == deadline.map(st), "C09: changing / removing the TTL moves the deadline accordingly (computed from now)");
    assert!(*sv.value_ref() == new_value.unwrap_or(7), "C08: value replaced only when requested");
    assert!(sv.key_id() == 1 && sv.is_soft_deleted == soft_deleted, "C08: id and delete mark untouched by an update");
    sup::set_now(t2.0, t2.1);
    let exp_alive2 = !soft_deleted && match deadline { None => true, Some(d) => le(t2, d) };
    assert!(sv.is_alive(&clock) == exp_alive2, "C09: readable exactly while not deleted and the clock has not passed the current expiry");
    let was_expired = old_deadline.map(|d| !le(t1, d)).unwrap_or(false);
    kani::cover!(mode == 0 && was_expired && exp_alive2, "expired, then TTL extended: readable again until the new deadline");
    kani::cover!(mode == 0 && had_expiry && !exp_alive2 && !soft_deleted && le(t2, e0), "TTL shortened: expires before the old deadline");
    kani::cover!(mode == 1 && had_expiry && !le(t2, e0) && exp_alive2, "TTL removed: alive past the old deadline");
    kani::cover!(mode == 2 && had_expiry && Some(t2) == deadline, "unchanged TTL, look exactly at the deadline");
    kani::cover!(soft_deleted, "soft-deleted entry");
}

/// C09 / P1: Clock::has_passed is strict: a deadline equal to now has not passed.
#[kani::proof]
fn c09_clock_has_passed_kernel() {
    let now = (kani::any::<u64>(), sup::any_nanos());
    let t = (kani::any::<u64>(), sup::any_nanos());
    kani::assume(now.0 <= MAX_SECS && t.0 <= MAX_SECS);
    sup::set_now(now.0, now.1);
    let clock = sup::clock();
    let passed = clock.has_passed(&sup::time(t.0, t.1));
    assert!(passed == !le(now, t), "C09: has_passed <=> now > time");
    kani::cover!(now == t, "now == time");
}


/// the harness-side construction of SystemTime values (field by field) agrees with the arithmetic one for every
/// (secs, nanos): validates the layout assumption all time-dependent harnesses rest on
#[kani::proof]
#[kani::unwind(8)]
fn c09_time_construction_is_faithful() {
    let s: u64 = kani::any();
    let n = sup::any_nanos();
    kani::assume(s <= (1u64 << 41));
    assert!(sup::time(s, n) == sup::time_arith(s, n), "harness time construction equals UNIX_EPOCH + Duration::new(secs, nanos)");
    assert!(sup::time(5000, 7) == sup::time_arith(5000, 7), "concrete instance");
}
