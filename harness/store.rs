//! Harnesses / constructors for src/cache/store/mod.rs — properties C02, C07 (existence check), C09, C04, C16.
#![allow(unused_imports, dead_code, static_mut_refs)]
use super::*;
use crate::cache::vk_support as sup;
use sup::vs;
use crate::cache::stats::verif_kani as stk;
use crate::cache::store::stored_value::verif_kani as svk;
use std::time::SystemTime;

pub(crate) fn vk_store(stats: Arc<ConcurrentStatsCounter>) -> Arc<Store<u64, u64>> {
    let s = Store::new(sup::clock(), stats, 4, 2);
    s.store.vk_set_class(vs::CL_STORE);
    s
}
pub(crate) fn vk_place(s: &Store<u64, u64>, slot: usize, key: u64, v: StoredValue<u64>) { s.store.vk_place(slot, key, v); }
pub(crate) fn vk_peek<'a>(s: &'a Store<u64, u64>, key: &u64) -> Option<&'a StoredValue<u64>> { s.store.vk_peek(key) }
pub(crate) type ValueStorage = [dashmap::VCell<StoredValue<u64>>; dashmap::CAP];
pub(crate) fn vk_value_storage() -> ValueStorage { [dashmap::VCell::empty(), dashmap::VCell::empty(), dashmap::VCell::empty(), dashmap::VCell::empty()] }
pub(crate) fn vk_use_value_storage(s: &Store<u64, u64>, p: &mut ValueStorage) { s.store.vk_use_value_storage(p as *mut _); }
pub(crate) fn vk_len(s: &Store<u64, u64>) -> usize { s.store.vk_len() }
pub(crate) fn vk_lookups(s: &Store<u64, u64>) -> u32 { s.store.vk_lookups() }
pub(crate) fn vk_locked(s: &Store<u64, u64>) -> bool { s.store.vk_locked() }

pub(crate) const POOL: usize = 3;
pub(crate) fn key_of(i: usize) -> u64 { 101 + i as u64 }

/// description of one abstract store entry
#[derive(Clone, Copy, PartialEq, Eq)]
pub(crate) struct AEntry { pub present: bool, pub value: u64, pub id: KeyId, pub expiry: Option<(u64, u32)>, pub soft_deleted: bool }

pub(crate) fn any_entry(id: KeyId) -> AEntry {
    let has_exp: bool = kani::any();
    let e = (kani::any::<u64>(), sup::any_nanos());
    kani::assume(e.0 <= (1u64 << 40));
    AEntry { present: kani::any(), value: kani::any(), id, expiry: if has_exp { Some(e) } else { None }, soft_deleted: kani::any() }
}
/// entry with CONCRETE shape (present / with TTL) and symbolic attributes
pub(crate) fn shaped_entry(id: KeyId, present: bool, with_ttl: bool) -> AEntry {
    let e = (kani::any::<u64>(), sup::any_nanos());
    kani::assume(e.0 <= (1u64 << 40));
    AEntry { present, value: kani::any(), id, expiry: if with_ttl { Some(e) } else { None }, soft_deleted: if present { kani::any() } else { false } }
}
/// quick tier: key 101 held with TTL, key 102 held without TTL, key 103 absent (concrete occupancy);
/// thorough tier: arbitrary occupancy
pub(crate) fn vk_entries() -> [AEntry; POOL] {
    if sup::cfg::TIER_THOROUGH { [any_entry(1), any_entry(2), any_entry(3)] }
    else { [shaped_entry(1, true, true), shaped_entry(2, true, false), shaped_entry(3, false, false)] }
}
/// place the described entries (keys 101..103 carrying ids 1..3) into a store built from concrete parts
pub(crate) fn vk_place_entries(s: &Store<u64, u64>, a: &[AEntry; POOL]) {
    let mut i = 0;
    while i < POOL {
        if a[i].present {
            vk_place(s, i, key_of(i), svk::vk_stored(a[i].value, a[i].id, a[i].expiry.map(|e| sup::time(e.0, e.1)), a[i].soft_deleted));
        }
        i += 1;
    }
}
pub(crate) fn le(a: (u64, u32), b: (u64, u32)) -> bool { a.0 < b.0 || (a.0 == b.0 && a.1 <= b.1) }
pub(crate) fn readable(e: &AEntry, now: (u64, u32)) -> bool {
    e.present && !e.soft_deleted && match e.expiry { None => true, Some(d) => le(now, d) }
}
pub(crate) fn check_entry(s: &Store<u64, u64>, i: usize, e: &AEntry) -> bool {
    match vk_peek(s, &key_of(i)) {
        None => !e.present,
        Some(sv) => e.present && *sv.value_ref() == e.value && sv.key_id() == e.id && sv.expire_after() == e.expiry.map(|d| sup::time(d.0, d.1)) && svk::vk_soft_deleted(sv) == e.soft_deleted,
    }
}

/// C02/C09/C16 / P3: every Store read on an arbitrary store at an arbitrary instant agrees with the abstract
/// map: Some(v) iff the queried key has a present, not soft-deleted, unexpired entry, and v is exactly that
/// entry's value; exactly one map look-up; exactly one of hits/misses grows by one; nothing else changes.
#[kani::proof]
#[kani::unwind(6)]
fn c02_store_reads_agree_with_abstract_map() {
    let stats = stk::vk_fresh();
    let a = vk_entries();
    let s = vk_store(stats.clone());
    vk_place_entries(&s, &a);
    let now = (kani::any::<u64>(), sup::any_nanos());
    kani::assume(now.0 <= (1u64 << 40));
    sup::set_now(now.0, now.1);
    let q: usize = kani::any();
    kani::assume(q <= POOL);            // q == POOL: a key that was never written
    let key = key_of(q);
    let expect = if q < POOL && readable(&a[q], now) { Some(a[q].value) } else { None };
    let variant: u8 = kani::any();
    kani::assume(variant < 3);
    let l0 = vk_lookups(&s);
    match variant {
        0 => { assert!(s.get(&key) == expect, "C02: get returns exactly the current value of the key or None"); }
        1 => {
            let r = s.get_ref(&key);
            match &r {
                Some(kv) => {
                    assert!(expect == Some(*kv.value().value_ref()), "C02: get_ref returns exactly the current value of the key");
                    assert!(*kv.key() == key && kv.value().key_id() == a[q].id, "C02: get_ref refers to the queried key's own entry");
                }
                None => assert!(expect.is_none(), "C02/C09: get_ref reports absent only if the key is not readable"),
            }
            drop(r);
        }
        _ => {
            assert!(s.is_present(&key) == (q < POOL && a[q].present), "C07: is_present reports physical presence");
        }
    }
    assert!(vk_lookups(&s) == l0 + 1, "C02: a read performs exactly one look-up of the store (atomic on the entry)");
    assert!(!vk_locked(&s), "C18: no store guard outlives the read");
    if variant < 2 {
        assert!(stats.hits() == if expect.is_some() { 1 } else { 0 } && stats.misses() == if expect.is_some() { 0 } else { 1 }, "C16: every lookup is exactly one hit or one miss");
    } else {
        assert!(stats.hits() == 0 && stats.misses() == 0, "C16: the existence check is not a lookup");
    }
    let mut i = 0;
    while i < POOL { assert!(check_entry(&s, i, &a[i]), "C03: reads change nothing in the store"); i += 1; }
    kani::cover!(q < POOL && a[q].present && a[q].soft_deleted, "soft-deleted key queried");
    kani::cover!(q < POOL && a[q].present && !a[q].soft_deleted && a[q].expiry == Some(now), "query exactly at the expiry instant");
    kani::cover!(q < POOL && a[q].present && !a[q].soft_deleted && a[q].expiry.is_some() && expect.is_none(), "expired but unswept key queried");
    kani::cover!(q == POOL, "never-written key queried");
    kani::cover!(expect.is_some() && variant == 1, "get_ref hit");
    core::mem::forget(s);
}

/// C02/C04/C05/C08/C16 / P2: every Store write (put / put_with_ttl / delete / mark_deleted / update / clear)
/// from an arbitrary store: exactly the addressed key changes, exactly as specified; returned id/expiry pairs
/// are those of the removed/updated entry; key statistics move accordingly.
#[kani::proof]
#[kani::unwind(6)]
fn c02_store_write_step() {
    let stats = stk::vk_fresh();
    let a = vk_entries();
    let s = vk_store(stats.clone());
    vk_place_entries(&s, &a);
    let now = (kani::any::<u64>(), sup::any_nanos());
    kani::assume(now.0 <= (1u64 << 40));
    sup::set_now(now.0, now.1);
    let t: usize = kani::any();
    kani::assume(t < POOL);
    let key = key_of(t);
    let mut exp = a;
    let op: u8 = kani::any();
    kani::assume(op < 6);
    let v: u64 = kani::any();
    let new_id: KeyId = 9;
    let ttl = (kani::any::<u64>(), sup::any_nanos());
    kani::assume(ttl.0 <= (1u64 << 40));
    let deadline = { let n = now.1 as u64 + ttl.1 as u64; if n >= 1_000_000_000 { (now.0 + ttl.0 + 1, (n - 1_000_000_000) as u32) } else { (now.0 + ttl.0, n as u32) } };
    match op {
        0 => { s.put(key, v, new_id); exp[t] = AEntry { present: true, value: v, id: new_id, expiry: None, soft_deleted: false }; }
        1 => {
            let e = s.put_with_ttl(key, v, new_id, Duration::new(ttl.0, ttl.1));
            assert!(e == sup::time(deadline.0, deadline.1), "C09: put_with_ttl returns expiry = now + ttl");
            exp[t] = AEntry { present: true, value: v, id: new_id, expiry: Some(deadline), soft_deleted: false };
        }
        2 => {
            let r = s.delete(&key);
            if a[t].present { assert!(r == Some(KeyIdExpiry(a[t].id, a[t].expiry.map(|d| sup::time(d.0, d.1)))), "C04: delete returns the id and expiry of the removed entry"); }
            else { assert!(r.is_none(), "C04: deleting an absent key returns nothing"); }
            exp[t].present = false;
        }
        3 => { s.mark_deleted(&key); if a[t].present { exp[t].soft_deleted = true; } }
        4 => {
            let mode: u8 = kani::any();
            kani::assume(mode < 3);
            let nv: Option<u64> = if kani::any() { Some(v) } else { None };
            let resp = match mode { 0 => s.update(&key, nv, Some(Duration::new(ttl.0, ttl.1)), false), 1 => s.update(&key, nv, None, true), _ => s.update(&key, nv, None, false) };
            assert!(resp.did_update_happen() == a[t].present, "C08: update happens iff the key is physically present");
            if a[t].present {
                let new_exp = match mode { 0 => Some(deadline), 1 => None, _ => a[t].expiry };
                assert!(resp.key_id_or_panic() == a[t].id && resp.existing_expiry() == a[t].expiry.map(|d| sup::time(d.0, d.1)) && resp.new_expiry() == new_exp.map(|d| sup::time(d.0, d.1)), "C08: update response carries the id, the old and the new expiry");
                exp[t].expiry = new_exp;
                if let Some(x) = nv { exp[t].value = x; }
                kani::cover!(mode == 0 && a[t].expiry.is_none(), "TTL added to a key without TTL");
                kani::cover!(mode == 1 && a[t].expiry.is_some(), "TTL removed");
            } else {
                assert!(resp.value() == nv, "C08: a missed update hands the value back for the put path");
            }
        }
        _ => { s.clear(); exp = [AEntry { present: false, ..a[0] }, AEntry { present: false, ..a[1] }, AEntry { present: false, ..a[2] }]; }
    }
    let mut i = 0;
    while i < POOL { assert!(check_entry(&s, i, &exp[i]), "C02/C03: a store write changes exactly the addressed key, exactly as requested"); i += 1; }
    assert!(!vk_locked(&s), "C18: no store guard outlives the write");
    assert!(stats.keys_added() == if op <= 1 { 1 } else { 0 }, "C16: keys added counts inserts");
    assert!(stats.keys_deleted() == if op == 2 && a[t].present { 1 } else { 0 }, "C16: keys deleted counts removals of present keys");
    kani::cover!(op == 0 && a[t].present, "insert over a present key (overwrite at store level)");
    kani::cover!(op == 2 && a[t].present && a[t].expiry.is_some(), "delete of a TTL key");
    core::mem::forget(s);
}

// ---- guard-held races at store level (P4): "skip when busy" defects
static mut R_STORE: *const Store<u64, u64> = core::ptr::null();
static mut R_MARK_RETURNED: bool = false;
static mut R_PRESENT: Option<bool> = None;
fn interfering_mark_deleted(_site: u32) { unsafe { (&*R_STORE).mark_deleted(&key_of(1)); R_MARK_RETURNED = true; } }
fn interfering_is_present(_site: u32) { unsafe { R_PRESENT = Some((&*R_STORE).is_present(&key_of(1))); } }

/// C04 / P4: another thread marks key k deleted (the caller-side half of `delete`) while THIS thread holds a
/// `get_ref` guard on k.  If that call returns while the guard is still held, the entry must carry the mark: the
/// delete must not "succeed" by skipping its mark because the shard was busy.  (A call that waits for the guard is
/// an infeasible placement in the lock model, so on code that waits there is nothing to observe and the harness passes.)
#[kani::proof]
#[kani::unwind(6)]
fn c04_mark_deleted_while_reader_holds_guard() {
    let stats = stk::vk_fresh();
    let a = [shaped_entry(1, true, true), shaped_entry(2, true, false), shaped_entry(3, false, false)];
    kani::assume(!a[1].soft_deleted);
    let s = vk_store(stats.clone());
    vk_place_entries(&s, &a);
    sup::set_now(0, 0);
    unsafe { R_STORE = &*s as *const Store<u64, u64>; R_MARK_RETURNED = false; }
    let guard = s.get_ref(&key_of(1));
    assert!(guard.is_some(), "C02: a live key without TTL is readable");
    vs::set_hook(interfering_mark_deleted, 1);
    drop(guard);                                   // the guard's release is the schedule point: the other thread runs while it is still held
    vs::clear_hook();
    if unsafe { R_MARK_RETURNED } && vs::fired() == 1 {
        assert!(vk_peek(&s, &key_of(1)).map(|v| svk::vk_soft_deleted(v)).unwrap_or(false), "C04: once the deleting call has returned the key is hidden (marked) - even if a reader held a reference while it ran");
        assert!(s.get(&key_of(1)).is_none(), "C04: ... and no later read returns it");
    }
    kani::cover!(vs::fired() == 1, "opt: the marking call returned while the reader still held its guard (infeasible when it waits)");
    kani::cover!(true, "end reached");
    core::mem::forget(s);
}

/// C07 / P4: another thread runs the existence check of `put` for a READABLE key k while this thread is inside an
/// in-place update of k (write guard held across the clock call).  If the check returns at all it must say "present":
/// it must not report "absent" because it could not look at a busy shard.
#[kani::proof]
#[kani::unwind(6)]
fn c07_existence_check_while_writer_holds_guard() {
    let stats = stk::vk_fresh();
    let a = [shaped_entry(1, true, true), shaped_entry(2, true, false), shaped_entry(3, false, false)];
    let s = vk_store(stats.clone());
    vk_place_entries(&s, &a);
    sup::set_now(100, 0);
    unsafe { R_STORE = &*s as *const Store<u64, u64>; R_PRESENT = None; }
    vs::set_hook(interfering_is_present, 1);
    let r = s.update(&key_of(1), None, Some(Duration::from_secs(30)), false);
    vs::clear_hook();
    assert!(r.did_update_happen(), "C08: the held key is updated in place");
    if let Some(p) = unsafe { R_PRESENT } {
        assert!(p, "C07: the existence check of put reports a held, readable key as present whatever else is going on with that key");
    }
    kani::cover!(unsafe { R_PRESENT.is_some() }, "the racing existence check returned (before or after the update)");
    core::mem::forget(s);
}
