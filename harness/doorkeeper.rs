//! Harnesses / constructors for src/cache/lfu/doorkeeper.rs
#![allow(unused_imports, dead_code)]
use super::*;

pub(crate) fn vk_doorkeeper_with_fp() -> DoorKeeper { DoorKeeper { bloom: Bloom::new_for_fp_rate(4, 0.01) } }
pub(crate) fn vk_doorkeeper_exact() -> DoorKeeper { DoorKeeper { bloom: Bloom::vk_exact() } }
pub(crate) fn vk_members(d: &DoorKeeper) -> usize { d.bloom.vk_len() }
pub(crate) fn vk_place(d: &mut DoorKeeper, slot: usize, h: u64) { d.bloom.vk_place(slot, h); }
/// slot holds `h` iff `member` (unconditional store of a symbolic flag: keeps the occupancy array's shape concrete)
pub(crate) fn vk_place_if(d: &mut DoorKeeper, slot: usize, h: u64, member: bool) { d.bloom.vk_place_if(slot, h, member); }

/// C14: first-access filter: add_if_missing reports "added" exactly when the key was not reported present,
/// afterwards the key is present (no false negatives); clear forgets every recorded member.
#[kani::proof]
#[kani::unwind(6)]
fn c14_doorkeeper_step() {
    let mut d = DoorKeeper::new(4, 0.01);
    let a: u64 = kani::any();
    let b: u64 = kani::any();
    let had_a = d.has(&a);
    let added = d.add_if_missing(&a);
    assert!(added == !had_a, "C14: doorkeeper adds exactly the keys it did not report");
    assert!(d.has(&a), "C14: doorkeeper has no false negatives");
    let had_b = d.has(&b);
    let _ = d.add_if_missing(&b);
    assert!(d.has(&a) && d.has(&b), "C14: earlier members stay members");
    kani::cover!(had_a, "false positive on first look-up");
    kani::cover!(!had_a && !had_b && a != b, "two fresh keys");
    d.clear();
    assert!(vk_members(&d) == 0, "C14: clear forgets every recorded member");
}
