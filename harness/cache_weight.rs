//! Harnesses / constructors for src/cache/policy/cache_weight.rs — properties C01, C05, C06 (sampler), C16.
#![allow(unused_imports, dead_code, static_mut_refs)]
use super::*;
use crate::cache::vk_support as sup;
use sup::vs;
use crate::cache::stats::verif_kani as stk;

pub(crate) fn vk_cache_weight(max: Weight, used: Weight, stats: Arc<ConcurrentStatsCounter>) -> CacheWeight<u64> {
    let cw = CacheWeight { max_weight: max, weight_used: RwLock::new(used), key_weights: DashMap::with_capacity_and_shard_amount(4, 2), stats_counter: stats };
    cw.key_weights.vk_set_class(vs::CL_WEIGHT_MAP);
    cw.weight_used.vk_set_class(vs::CL_WEIGHT_TOTAL);
    cw
}
pub(crate) type WeightStorage = [dashmap::VCell<WeightedKey<u64>>; dashmap::CAP];
pub(crate) fn vk_weight_storage() -> WeightStorage { [dashmap::VCell::empty(), dashmap::VCell::empty(), dashmap::VCell::empty(), dashmap::VCell::empty()] }
pub(crate) fn vk_use_weight_storage(c: &CacheWeight<u64>, p: &mut WeightStorage) { c.key_weights.vk_use_value_storage(p as *mut _); }
pub(crate) fn vk_place(cw: &CacheWeight<u64>, slot: usize, id: KeyId, key: u64, hash: KeyHash, weight: Weight) {
    cw.key_weights.vk_place(slot, id, WeightedKey::new(key, hash, weight));
}
pub(crate) fn vk_entry(cw: &CacheWeight<u64>, id: KeyId) -> Option<(u64, KeyHash, Weight)> {
    cw.key_weights.vk_peek(&id).map(|w| (w.key, w.key_hash, w.weight))
}
/// poke the limit and the running total in place (objects that are moved after construction must hold only
/// concrete scalars: a symbolic field turns every later read of the moved object into a symbolic byte-array read)
#[allow(invalid_reference_casting)]
pub(crate) fn vk_set_limits(cw: &CacheWeight<u64>, max: Weight, used: Weight) {
    unsafe { *(&cw.max_weight as *const Weight as *mut Weight) = max; }
    *cw.weight_used.vk_data() = used;
}
pub(crate) fn vk_used(cw: &CacheWeight<u64>) -> Weight { *cw.weight_used.vk_data() }
pub(crate) fn vk_len(cw: &CacheWeight<u64>) -> usize { cw.key_weights.vk_len() }
pub(crate) fn vk_sum(cw: &CacheWeight<u64>) -> i128 {
    let mut s: i128 = 0;
    let mut i = 0;
    while i < dashmap::CAP { if let Some((_, w)) = cw.key_weights.vk_slot(i) { s += w.weight as i128; } i += 1; }
    s
}
pub(crate) fn vk_slot(cw: &CacheWeight<u64>, i: usize) -> Option<(KeyId, u64, KeyHash, Weight)> {
    cw.key_weights.vk_slot(i).map(|(id, w)| (*id, w.key, w.key_hash, w.weight))
}

/// key of entry with id i in the concrete pool is 100 + i, hash is i % 4 (pool: ids 1..=3 resident, 4 incoming)
pub(crate) const POOL: usize = 3;
/// hash of resident i: deliberately different from its id (i + 1) and from its key (101 + i)
pub(crate) fn hash_of(i: usize) -> KeyHash { (i + 5) as KeyHash }

/// Symbolic description of a CacheWeight state satisfying the representation invariant: up to 3 resident ids
/// (1..=3) with arbitrary positive weights, total == sum of weights (+ g in flight), 0 <= total <= max.
/// `fixed_n`: Some(n) = exactly ids 1..=n are resident (CONCRETE occupancy, symbolic weights) — symbolic
/// occupancy makes CBMC explore every map operation for every slot and is used at the thorough tier only;
/// `in_flight`: the total may exceed the sum of the charged weights by a solver-chosen amount g >= 0 (the
/// state "another thread's delete has removed its map entry but not yet subtracted its weight", RI7).
pub(crate) struct AState { pub max: Weight, pub used: Weight, pub present: [bool; POOL], pub weights: [Weight; POOL] }
pub(crate) fn vk_any_astate(fixed_n: Option<usize>, in_flight: bool) -> AState {
    let max: Weight = kani::any();
    kani::assume(max >= 1);
    let present: [bool; POOL] = match fixed_n { Some(n) => [n >= 1, n >= 2, n >= 3], None => [kani::any(), kani::any(), kani::any()] };
    let weights: [Weight; POOL] = [kani::any(), kani::any(), kani::any()];
    let mut sum: i128 = 0;
    let mut i = 0;
    while i < POOL { kani::assume(weights[i] >= 1); if present[i] { sum += weights[i] as i128; } i += 1; }
    let g: Weight = if in_flight { kani::any() } else { 0 };
    kani::assume(g >= 0);
    kani::assume(sum + g as i128 <= max as i128);
    AState { max, used: (sum + g as i128) as Weight, present, weights }
}
/// install the described state into a CacheWeight that was built from concrete scalars and already sits at
/// its final place (entries go into the map's heap cells with typed stores; limit and total are poked in place)
pub(crate) fn vk_populate(cw: &CacheWeight<u64>, a: &AState) {
    let mut i = 0;
    while i < POOL {
        if a.present[i] { vk_place(cw, i, (i + 1) as KeyId, 101 + i as u64, hash_of(i), a.weights[i]); }
        i += 1;
    }
    vk_set_limits(cw, a.max, a.used);
}

static mut HOOK_CALLS: u32 = 0;
static mut HOOK_LAST_KEY: u64 = 0;
fn record_hook(key: u64) { unsafe { HOOK_CALLS += 1; HOOK_LAST_KEY = key; } }

/// C01/C05/C16 / P2: one CacheWeight operation (add / update / delete / clear / space check) from an
/// arbitrary RI state with fully symbolic weights and limit.  Post: total == sum of weights of exactly the
/// charged ids; 0 <= total <= limit; only the addressed entry changed; weight statistics move by exactly the
/// change of the total (two's-complement add for decreases); delete hook called exactly once with the key.
#[kani::proof]
#[kani::unwind(6)]
fn c05_cache_weight_step() {
    unsafe { vs::MONITOR = true; vs::EDGES_ON = crate::cache::vk_cfg::LOCK_EDGES; }
    let stats = stk::vk_fresh();
    let a = vk_any_astate(if sup::cfg::TIER_THOROUGH { None } else { Some(2) }, false);
    let cw = vk_cache_weight(1, 0, stats.clone());
    vk_populate(&cw, &a);
    let (present, weights) = (a.present, a.weights);
    let max = cw.get_max_weight();
    let used0 = vk_used(&cw);
    let op: u8 = kani::any();
    kani::assume(op < 5);
    let target: usize = kani::any();
    kani::assume(target < POOL);
    let id = (target + 1) as KeyId;
    let w: Weight = kani::any();
    kani::assume(w >= 1);
    unsafe { HOOK_CALLS = 0; }
    let mut exp_present = present;
    let mut exp_weights = weights;
    let mut exp_new: Option<Weight> = None;
    match op {
        0 => {
            // add of a fresh id, under the precondition its only caller establishes (space was checked)
            let (avail, enough) = cw.is_space_available_for(w);
            assert!(avail == max - used0 && enough == (max - used0 >= w), "C01: free space = limit - used; enough iff free >= weight");
            kani::assume(enough);
            let d = KeyDescription::new(104u64, 4, 0, w);
            cw.add(&d);
            exp_new = Some(w);
            assert!(vk_entry(&cw, 4) == Some((104, 0, w)), "C05: the added id is charged with its key, hash and weight");
        }
        1 => {
            let region = present[target] && (w as i128 - weights[target] as i128) > (max as i128 - used0 as i128);
            if sup::cfg::KF_F1 && region {
                // same root cause, second symptom: the unchecked delta overflows i64 (panic in the dev profile, wrap in release)
                let overflow = used0 as i128 + (w as i128 - weights[target] as i128) > i64::MAX as i128;
                kani::cover!(overflow, "KF F1: the unchecked UpdateWeight delta overflows the i64 total (used + (w - old) > i64::MAX)");
                kani::assume(!overflow);
            }
            let r = cw.update(&id, w);
            assert!(r == present[target], "C08: update reports whether the id is charged");
            if present[target] { exp_weights[target] = w; }
        }
        2 => {
            cw.delete(&id, &record_hook);
            if present[target] {
                assert!(unsafe { HOOK_CALLS == 1 && HOOK_LAST_KEY == 101 + target as u64 }, "C05: delete hands exactly the removed id's key to the hook, once");
                exp_present[target] = false;
            } else {
                assert!(unsafe { HOOK_CALLS == 0 }, "C04: deleting an uncharged id calls no hook");
            }
        }
        3 => {
            cw.clear();
            exp_present = [false; POOL];
        }
        _ => {
            assert!(cw.contains(&id) == present[target], "C05: contains <=> charged");
            assert!(cw.weight_of(&id) == if present[target] { Some(weights[target]) } else { None }, "C05: weight_of reports the charged weight");
        }
    }
    // expected total
    let mut exp_sum: i128 = exp_new.unwrap_or(0) as i128;
    let mut i = 0;
    while i < POOL {
        let e = vk_entry(&cw, (i + 1) as KeyId);
        if exp_present[i] { assert!(e == Some((101 + i as u64, hash_of(i), exp_weights[i])), "C03/C05: every other entry is untouched; the addressed one has the new weight"); exp_sum += exp_weights[i] as i128; }
        else { assert!(e.is_none(), "C05: a released id is no longer charged"); }
        i += 1;
    }
    let used1 = vk_used(&cw);
    let f1_region = op == 1 && present[target] && (w as i128 - weights[target] as i128) > (max as i128 - used0 as i128);
    if sup::cfg::KF_F1 && f1_region {
        kani::cover!(used1 > max, "KF F1: a weight-increasing UpdateWeight pushes the total above the limit (no bound check)");
    } else {
        assert!(used1 as i128 == exp_sum, "C05: total weight equals the sum of the weights of exactly the charged ids");
        assert!(used1 >= 0 && used1 <= max, "C01: total weight stays within 0..=limit");
    }
    if !(sup::cfg::KF_F1 && f1_region) {
        // C16: weight_added - weight_removed == change of the total (mod 2^64), except clear (which resets stats elsewhere)
        if op != 3 {
            let delta = stats.weight_added().wrapping_sub(stats.weight_removed());
            assert!(delta == (used1.wrapping_sub(used0)) as u64, "C16: weight added minus weight removed tracks the total weight");
            assert!(stats.keys_updated() == if op == 1 && present[target] { 1 } else { 0 }, "C16: one key update counted per applied weight update");
        }
    }
    kani::cover!(op == 1 && present[target] && w < weights[target], "weight decrease through update");
    kani::cover!(op == 1 && present[target] && w == weights[target], "same weight");
    kani::cover!(op == 0 && max - used0 == w, "add exactly filling the cache");
    kani::cover!(op == 2 && present[target] && present[(target + 1) % POOL], "delete one of several");
    kani::cover!(op == 0 && max == i64::MAX, "limit = i64::MAX");
    vs::edge_covers();
    core::mem::forget(cw);
}

// ------------------------------------------------------------------------------------------- sampler (C06)
static mut FREQ: [u8; 8] = [0; 8];
fn freq_of(hash: KeyHash) -> FrequencyEstimate { unsafe { FREQ[(hash % 8) as usize] } }

fn lower_or_equal(a: &SampledKey, b: &SampledKey) -> bool {
    // the rule: lowest estimated frequency first; on equal frequency the heavier key first
    a.estimated_frequency < b.estimated_frequency || (a.estimated_frequency == b.estimated_frequency && a.weight >= b.weight)
}

/// C06 / P1: the victim order.  For any two sampled keys, the heap's maximum is the one with the lower
/// estimate (heavier on ties), the order is total and antisymmetric up to full ties.
#[kani::proof]
fn c06_sampled_key_order_kernel() {
    let a = SampledKey::using(kani::any(), kani::any(), kani::any());
    let b = SampledKey::using(kani::any(), kani::any(), kani::any());
    let c = SampledKey::using(kani::any(), kani::any(), kani::any());
    let ab = a.cmp(&b);
    assert!((ab != Ordering::Less) == lower_or_equal(&a, &b), "C06: a ranks at or above b in the victim heap iff a has the lower estimate (heavier on ties)");
    assert!(ab == b.cmp(&a).reverse(), "C06: victim order is antisymmetric");
    assert!(a.partial_cmp(&b) == Some(ab), "C06: partial_cmp agrees with cmp");
    if ab != Ordering::Less && b.cmp(&c) != Ordering::Less { assert!(a.cmp(&c) != Ordering::Less, "C06: victim order is transitive"); }
    assert!((a == b) == (a.id == b.id), "C06: sampled keys are identified by key id");
    kani::cover!(a.estimated_frequency == b.estimated_frequency && a.weight != b.weight, "frequency tie");
    kani::cover!(a.estimated_frequency == 255 && b.estimated_frequency == 0, "extreme estimates");
}

/// C06 / P2: the sampler on an arbitrary weight map (<= 3 entries, arbitrary slot rotation, arbitrary weights,
/// arbitrary frequency per key HASH).  Sample size s in 1..=3: the initial sample holds min(s, n) distinct
/// resident ids; every pop returns a minimum of the current sample under the rule; after a pop, fill-in adds
/// only resident ids that are not in the sample, ranked by the estimate of THEIR HASH; no duplicates ever.
#[kani::proof]
#[kani::unwind(5)]
fn c06_sampler_pop_and_refill() {
    let stats = stk::vk_fresh();
    let a = vk_any_astate(Some(3), false);
    let cw = vk_cache_weight(1, 0, stats);
    vk_populate(&cw, &a);
    let (present, weights) = (a.present, a.weights);
    unsafe { FREQ = [kani::any(), kani::any(), kani::any(), kani::any(), kani::any(), kani::any(), kani::any(), kani::any()]; }
    let s: usize = kani::any();
    kani::assume(s >= 1 && s <= 3);
    let n = vk_len(&cw);
    let mut sample = cw.sample(s, freq_of);
    assert!(sample.size() == if n < s { n } else { s }, "C06: initial sample holds min(sample size, resident keys)");
    let mut seen = [false; POOL];
    let mut pops = 0;
    let mut prev: Option<SampledKey> = None;
    while pops < 3 {
        let size_before = sample.size();
        match sample.min_frequency_key() {
            Some(k) => {
                let idx = (k.id - 1) as usize;
                assert!(k.id >= 1 && k.id <= 3 && present[idx], "C06: only resident keys are sampled");
                assert!(!seen[idx], "C06: a key is never sampled twice");
                seen[idx] = true;
                assert!(k.weight == weights[idx], "C06: sampled weight is the charged weight");
                assert!(k.estimated_frequency == freq_of(hash_of(idx)), "C06: sampled frequency is the estimate of the key's hash");
                // simulate the eviction the caller performs, then refill
                cw.delete(&k.id, &record_hook);
                let filled = sample.maybe_fill_in();
                let remaining_unsampled = { let mut c = 0; let mut j = 0; while j < POOL { if present[j] && !seen[j] { c += 1; } j += 1; } c };
                let _ = filled;
                assert!(sample.size() <= s && sample.size() <= remaining_unsampled, "C06: fill-in never exceeds the sample size nor the residents left");
                assert!(sample.size() >= size_before - 1, "C06: fill-in never drops sampled keys");
                if s == 1 { assert!(sample.size() == if remaining_unsampled >= 1 { 1 } else { 0 }, "C06: fill-in tops the sample up while residents are left"); }
                prev = Some(k);
            }
            None => { assert!(size_before == 0, "C06: the sampler only runs dry when the sample is empty"); }
        }
        pops += 1;
    }
    let _ = prev;
    kani::cover!(n == 3 && s == 1 && seen[0] && seen[1] && seen[2], "sample of one, refilled twice");
    kani::cover!(n == 3 && s == 3, "whole map sampled");
    core::mem::forget(sample);
    core::mem::forget(cw);
}

/// C06 / P2: with the whole map in the sample (n <= 3 <= sample size), pops come out in victim order:
/// each popped key is a minimum (lowest estimate, heavier on ties) of the keys not yet popped.
#[kani::proof]
#[kani::unwind(5)]
fn c06_sampler_victim_order() {
    let stats = stk::vk_fresh();
    let a = vk_any_astate(Some(3), false);
    let cw = vk_cache_weight(1, 0, stats);
    vk_populate(&cw, &a);
    let (present, weights) = (a.present, a.weights);
    unsafe { FREQ = [kani::any(), kani::any(), kani::any(), kani::any(), kani::any(), kani::any(), kani::any(), kani::any()]; }
    let mut sample = cw.sample(5, freq_of);
    let mut popped = [false; POOL];
    let mut pops = 0;
    while pops < 3 {
        if let Some(k) = sample.min_frequency_key() {
            let idx = (k.id - 1) as usize;
            let mut j = 0;
            while j < POOL {
                if present[j] && !popped[j] {
                    let other = SampledKey::using((j + 1) as KeyId, weights[j], freq_of(hash_of(j)));
                    assert!(lower_or_equal(&k, &other), "C06: victims are taken lowest estimate first, heavier first on ties");
                }
                j += 1;
            }
            popped[idx] = true;
        }
        pops += 1;
    }
    let mut j = 0;
    while j < POOL { assert!(popped[j] == present[j], "C06: every resident key of a small map is eventually offered as a victim, exactly once"); j += 1; }
    kani::cover!(present[0] && present[1] && present[2] && freq_of(hash_of(0)) == freq_of(hash_of(1)) && weights[0] != weights[1], "tie on frequency among three residents");
    core::mem::forget(sample);
    core::mem::forget(cw);
}
