//! Constructors / views for src/cache/command/command_executor.rs (the harnesses that drive the worker live
//! in cached.rs's harness module, where a whole CacheD can be built).
#![allow(unused_imports, dead_code, static_mut_refs)]
use super::*;
use crate::cache::vk_support as sup;
use sup::vs;
use crate::cache::verif_rt::thread as vthread;
use crate::cache::key_description::verif_kani as kdk;

#[derive(Clone, Copy, PartialEq, Eq, Debug)]
pub(crate) enum CmdView {
    Put { key: u64, id: u64, hash: u64, weight: i64, value: u64 },
    PutTTL { key: u64, id: u64, hash: u64, weight: i64, value: u64, ttl: Duration },
    Delete { key: u64 },
    UpdateWeight { id: u64, weight: i64 },
    Shutdown,
}
fn view(c: &CommandType<u64, u64>) -> CmdView {
    match c {
        CommandType::Put(d, v) => CmdView::Put { key: *kdk::vk_key(d), id: d.id, hash: d.hash, weight: d.weight, value: *v },
        CommandType::PutWithTTL(d, v, t) => CmdView::PutTTL { key: *kdk::vk_key(d), id: d.id, hash: d.hash, weight: d.weight, value: *v, ttl: *t },
        CommandType::Delete(k) => CmdView::Delete { key: *k },
        CommandType::UpdateWeight(id, w) => CmdView::UpdateWeight { id: *id, weight: *w },
        CommandType::Shutdown => CmdView::Shutdown,
    }
}
/// real constructor; the worker closure is stashed by the thread shim; returns (executor, stash slot)
pub(crate) fn vk_executor(store: Arc<Store<u64, u64>>, policy: Arc<AdmissionPolicy<u64>>, stats: Arc<ConcurrentStatsCounter>, ticker: Arc<TTLTicker>, size: usize)
                          -> (CommandExecutor<u64, u64>, usize) {
    let slot = vthread::spawned();
    let ex = CommandExecutor::new(store, policy, stats, ticker, size);
    ex.sender.vk_set_class(vs::CL_CMD_QUEUE);
    (ex, slot)
}
/// The sequential model cannot suspend a thread: a worker that finds the queue empty *parks* (its body ends).
/// To let the worker continue later, stash a FRESH body of the real worker closure (`CommandExecutor::spin`)
/// on the same queue; returns its stash slot.
pub(crate) fn vk_respawn_worker(ex: &CommandExecutor<u64, u64>, store: Arc<Store<u64, u64>>, policy: Arc<AdmissionPolicy<u64>>, stats: Arc<ConcurrentStatsCounter>, ticker: Arc<TTLTicker>) -> usize {
    let slot = vthread::spawned();
    ex.spin(ex.sender.vk_receiver_handle(), store, policy, stats, ticker);
    slot
}
/// run the stashed worker: it executes whatever is queued and parks when the queue is empty
pub(crate) fn vk_run_worker(slot: usize) {
    unsafe { vs::PARKED = false; }
    vs::consumer_holds(1, vs::CL_CMD_QUEUE, true);
    vthread::run(slot, 1);
    vs::consumer_holds(1, vs::CL_CMD_QUEUE, false);
}
pub(crate) fn vk_queue_len(ex: &CommandExecutor<u64, u64>) -> usize { ex.sender.len() }
pub(crate) fn vk_queue_cap(ex: &CommandExecutor<u64, u64>) -> usize { ex.sender.vk_chan().vk_cap() }
pub(crate) fn vk_peek(ex: &CommandExecutor<u64, u64>, k: usize) -> Option<CmdView> { ex.sender.vk_chan().vk_peek(k).map(|p| view(&p.command)) }
/// address of the acknowledgement of the k-th queued command (no Arc clone / drop: dropping an Arc makes CBMC
/// explore the drop of its content, down to Waker's function-pointer vtable)
pub(crate) fn vk_ack_ptr(ex: &CommandExecutor<u64, u64>, k: usize) -> Option<*const CommandAcknowledgement> { ex.sender.vk_chan().vk_peek(k).map(|p| Arc::as_ptr(&p.acknowledgement)) }
pub(crate) fn vk_chan_stats(ex: &CommandExecutor<u64, u64>) -> (u32, u32, bool) { let c = ex.sender.vk_chan(); (c.sent(), c.received(), c.fifo_ok()) }
pub(crate) fn vk_receiver_alive(ex: &CommandExecutor<u64, u64>) -> bool { ex.sender.vk_chan().vk_receivers() > 0 }

/// slot array for the command queue; declare it as a LOCAL of the harness function and attach it, so that the
/// queued commands live in typed stack memory (see the channel model)
pub(crate) struct QueueStorage([Option<CommandAcknowledgementPair<u64, u64>>; crossbeam_channel::QCAP]);
/// never dropped: a command still queued at the end of a harness holds an Arc<CommandAcknowledgement>, whose drop reaches
/// Waker's function-pointer vtable (CBMC then explores the stashed thread bodies as call targets)
pub(crate) fn vk_slots() -> core::mem::ManuallyDrop<QueueStorage> { core::mem::ManuallyDrop::new(QueueStorage([None, None, None, None])) }
pub(crate) fn vk_attach(ex: &CommandExecutor<u64, u64>, slots: &mut QueueStorage) { ex.sender.vk_use_storage(&mut slots.0 as *mut _); }
