//! Harnesses / constructors for src/cache/stats/mod.rs — property C16.
#![allow(unused_imports, dead_code)]
use super::*;
use std::sync::Arc;

fn c(v: u64) -> Counter { Counter(CachePadded::new(AtomicU64::new(v))) }
/// stats counter with given values, built by literal (avoids the 10-iteration initialiser loop)
pub(crate) fn vk_stats_with(v: [u64; TOTAL_STATS]) -> ConcurrentStatsCounter {
    ConcurrentStatsCounter { entries: [c(v[0]), c(v[1]), c(v[2]), c(v[3]), c(v[4]), c(v[5]), c(v[6]), c(v[7]), c(v[8]), c(v[9])] }
}
pub(crate) fn vk_fresh() -> Arc<ConcurrentStatsCounter> { Arc::new(vk_stats_with([0; TOTAL_STATS])) }
pub(crate) fn vk_any() -> Arc<ConcurrentStatsCounter> {
    Arc::new(vk_stats_with([kani::any(), kani::any(), kani::any(), kani::any(), kani::any(), kani::any(), kani::any(), kani::any(), kani::any(), kani::any()]))
}
pub(crate) fn vk_snapshot(s: &ConcurrentStatsCounter) -> [u64; TOTAL_STATS] {
    [s.hits(), s.misses(), s.keys_added(), s.keys_deleted(), s.keys_updated(), s.keys_rejected(), s.weight_added(), s.weight_removed(), s.access_added(), s.access_dropped()]
}
pub(crate) const HITS: usize = 0; pub(crate) const MISSES: usize = 1; pub(crate) const KEYS_ADDED: usize = 2; pub(crate) const KEYS_DELETED: usize = 3;
pub(crate) const KEYS_UPDATED: usize = 4; pub(crate) const KEYS_REJECTED: usize = 5; pub(crate) const WEIGHT_ADDED: usize = 6; pub(crate) const WEIGHT_REMOVED: usize = 7;
pub(crate) const ACCESS_ADDED: usize = 8; pub(crate) const ACCESS_DROPPED: usize = 9;

/// C16: the hit ratio equals hits / (hits + misses) and is zero only when there were no hits (or no lookups).
#[kani::proof]
fn c16_hit_ratio_kernel() {
    let hits: u64 = kani::any();
    let misses: u64 = kani::any();
    kani::assume(hits <= 255 && misses <= 255);
    let mut v = [0u64; TOTAL_STATS];
    v[HITS] = hits; v[MISSES] = misses;
    let s = vk_stats_with(v);
    let r = s.hit_ratio();
    let in_known_region = hits > 0 && misses == 0;
    if crate::cache::vk_cfg::KF_F9 && in_known_region {
        kani::cover!(r == 0.0, "KF F9: all-hit workload reports hit ratio 0");
    } else {
        if hits == 0 { assert!(r == 0.0, "C16: no hits (or no lookups) gives ratio zero"); }
        else {
            // r = fl(hits / (hits + misses)) with correctly rounded division: bracket it against exactly
            // representable thresholds using integer arithmetic only (no second float division in the oracle)
            let total = hits + misses;
            assert!(r > 0.0 && r <= 1.0, "C16: ratio is zero only without hits, and never above one");
            assert!((r == 1.0) == (misses == 0), "C16: ratio is one exactly for an all-hit workload");
            assert!((r >= 0.5) == (2 * hits >= total), "C16: hit ratio equals hits divided by lookups (1/2 bracket)");
            assert!((r >= 0.25) == (4 * hits >= total), "C16: hit ratio equals hits divided by lookups (1/4 bracket)");
            assert!((r >= 0.75) == (4 * hits >= 3 * total), "C16: hit ratio equals hits divided by lookups (3/4 bracket)");
            assert!((r >= 0.125) == (8 * hits >= total), "C16: hit ratio equals hits divided by lookups (1/8 bracket)");
        }
    }
    kani::cover!(hits > 0 && misses == 0, "all-hit workload");
    kani::cover!(hits == 0 && misses > 0, "all-miss workload");
    kani::cover!(hits == 0 && misses == 0, "no lookups");
    kani::cover!(hits == 255 && misses == 1, "largest counters in the bound");
}

/// C16: every counter method changes exactly its own counter by exactly the given amount; clear zeroes all.
#[kani::proof]
#[kani::unwind(12)]
fn c16_counters_frame() {
    let s = vk_any();
    let before = vk_snapshot(&s);
    let which: usize = kani::any();
    kani::assume(which < TOTAL_STATS);
    let delta: u64 = kani::any();
    let d = match which {
        0 => { s.found_a_hit(); 1 } 1 => { s.found_a_miss(); 1 } 2 => { s.add_key(); 1 } 3 => { s.delete_key(); 1 }
        4 => { s.update_key(); 1 } 5 => { s.reject_key(); 1 } 6 => { s.add_weight(delta); delta } 7 => { s.remove_weight(delta); delta }
        8 => { s.add_access(delta); delta } _ => { s.drop_access(delta); delta }
    };
    let after = vk_snapshot(&s);
    let mut i = 0;
    while i < TOTAL_STATS {
        if i == which { assert!(after[i] == before[i].wrapping_add(d), "C16: the counter grows by exactly the reported amount"); }
        else { assert!(after[i] == before[i], "C16: other counters untouched"); }
        i += 1;
    }
    s.clear();
    let z = vk_snapshot(&s);
    i = 0;
    while i < TOTAL_STATS { assert!(z[i] == 0, "C16: clear zeroes every counter"); i += 1; }
    kani::cover!(which == 9, "last counter");
}

/// C16: new() starts every counter at zero.
#[kani::proof]
#[kani::unwind(12)]
fn c16_new_starts_at_zero() {
    let fresh = ConcurrentStatsCounter::new();
    let z = vk_snapshot(&fresh);
    let mut i = 0;
    while i < TOTAL_STATS { assert!(z[i] == 0, "C16: new counters start at zero"); i += 1; }
    core::mem::forget(fresh);
}

/// C16: summary() reports every counter under its own type and carries the same hit ratio.
#[kani::proof]
#[kani::unwind(12)]
fn c16_summary_reports_each_counter() {
    let vals: [u64; TOTAL_STATS] = [kani::any(), kani::any(), kani::any(), kani::any(), kani::any(), kani::any(), kani::any(), kani::any(), kani::any(), kani::any()];
    kani::assume(vals[0] <= 15 && vals[1] <= 15);
    let s = vk_stats_with(vals);
    let summary = s.summary();
    let which: usize = kani::any();
    kani::assume(which < TOTAL_STATS);
    assert!(summary.get(&StatsType::VALUES[which]) == Some(vals[which]), "C16: summary reports each counter under its own type");
    assert!(summary.hit_ratio == s.hit_ratio(), "C16: summary carries the hit ratio");
    core::mem::forget(summary);
}
