//! Harnesses / constructors for src/cache/pool.rs — property C15 (access accounting, reads never wait).
#![allow(unused_imports, dead_code, static_mut_refs)]
use super::*;
use crate::cache::vk_support as sup;
use sup::vs;
use crate::cache::stats::verif_kani as stk;
use crate::cache::policy::admission_policy::AdmissionPolicy;
use crate::cache::policy::admission_policy::verif_kani as apk;
use crate::cache::policy::cache_weight::verif_kani as cwk;
use crate::cache::lfu::tiny_lfu::verif_kani as tlk;
use crate::cache::lfu::frequency_counter::verif_kani as fck;
use crate::cache::lfu::doorkeeper::verif_kani as dkk;

pub(crate) fn vk_pool<C: BufferConsumer>(pool_size: usize, buffer_size: usize, consumer: Arc<C>) -> Pool<C> {
    let p = Pool::new(PoolSize(pool_size), BufferSize(buffer_size), consumer);
    let mut i = 0;
    while i < pool_size { p.buffers[i].vk_set_class(vs::CL_POOL_BUF); i += 1; }
    p
}
pub(crate) fn vk_buffer_len<C: BufferConsumer>(p: &Pool<C>, i: usize) -> usize { p.buffers[i].vk_data().key_hashes.len() }
pub(crate) fn vk_buffer_push<C: BufferConsumer>(p: &Pool<C>, i: usize, h: KeyHash) { p.buffers[i].vk_data().key_hashes.push(h); }
pub(crate) fn vk_buffered<C: BufferConsumer>(p: &Pool<C>) -> usize { let mut n = 0; let mut i = 0; while i < p.buffers.len() { n += vk_buffer_len(p, i); i += 1; } n }

/// C15 / P2: one access record pushed into the pool from an arbitrary pipeline state: pool size 1..=2,
/// buffer size 1..=2, arbitrary fill of each buffer, access queue of capacity 1..=2 with arbitrary occupancy
/// (saturated consumer included), consumer alive or already gone.  The counting identity
///     buffered + AccessAdded + AccessDropped   grows by exactly one,
/// a full buffer is handed over WHOLE to exactly one of added / dropped and then holds only the new record,
/// no blocking queue operation and exactly one lock (the buffer's) is taken on this path.
#[kani::proof] #[kani::unwind(5)] fn c15_pool_add_b1_empty() { pool_add_step(1, 1, [0, 0]); }
#[kani::proof] #[kani::unwind(5)] fn c15_pool_add_b1_full() { pool_add_step(1, 1, [1, 0]); }
#[kani::proof] #[kani::unwind(5)] fn c15_pool_add_b2_half() { pool_add_step(1, 2, [1, 0]); }
#[kani::proof] #[kani::unwind(5)] fn c15_pool_add_b2_full() { pool_add_step(1, 2, [2, 0]); }
#[kani::proof] #[kani::unwind(5)] fn c15_pool_add_two_buffers() { pool_add_step(2, 2, [2, 1]); }
/// pool size, buffer size and buffer fill are CONCRETE per harness (a Vec of symbolic length sends CBMC's array
/// post-processing beyond 14 GB); queue capacity, occupancy and consumer liveness stay symbolic
fn pool_add_step(psize: usize, bsize: usize, fill: [usize; 2]) {
    let stats = stk::vk_fresh();
    let cw = cwk::vk_cache_weight(100, 0, stats.clone());
    let lfu = tlk::vk_tiny_lfu(fck::vk_zero_sketch(4), dkk::vk_doorkeeper_exact(), 0, 100);
    let qcap: usize = kani::any();
    kani::assume(qcap >= 1 && qcap <= 2);
    let (policy, rx) = apk::vk_policy(cw, lfu, stats.clone(), qcap);
    let policy = Arc::new(policy);
    // queue occupancy
    let occ: usize = kani::any();
    kani::assume(occ <= qcap);
    let mut k = 0;
    while k < 2 { if k < occ { let _ = apk::vk_sender(&policy).send(BufferEvent::Full(vec![9])); } k += 1; }
    let consumer_gone: bool = kani::any();
    if consumer_gone { drop(rx); } else { core::mem::forget(rx); }
    let pool = vk_pool(psize, bsize, policy.clone());
    let mut i = 0;
    while i < 2 { if i < psize { let mut j = 0; while j < 2 { if j < fill[i] { vk_buffer_push(&pool, i, 40 + j as u64); } j += 1; } } i += 1; }
    let buffered0 = vk_buffered(&pool);
    let h: KeyHash = kani::any();
    unsafe { vs::MONITOR = true; vs::BLOCKING_OPS = 0; vs::LOCK_ACQS = 0; }

    pool.add(h);

    let (added, dropped) = (stats.access_added(), stats.access_dropped());
    let buffered1 = vk_buffered(&pool);
    assert!(buffered1 as u64 + added + dropped == buffered0 as u64 + 1, "C15: every access record is buffered, delivered or counted as dropped - never lost, never double-counted");
    assert!(unsafe { vs::BLOCKING_OPS } == 0, "C15: a read never blocks on the counting pipeline");
    assert!(unsafe { vs::LOCK_ACQS } == 1, "C15: the hit path takes exactly one lock (its buffer)");
    let handed_over = added + dropped;
    assert!(handed_over == 0 || handed_over == bsize as u64, "C15: hand-over moves a whole buffer");
    assert!(added == 0 || dropped == 0, "C15: a buffer goes to exactly one of delivered / dropped");
    if handed_over > 0 {
        let delivered_possible = !consumer_gone && occ < qcap;
        assert!((added > 0) == delivered_possible, "C15: delivered iff the consumer is alive and its queue has room; otherwise dropped and counted as dropped");
        assert!(apk::vk_sender(&policy).len() == occ + if added > 0 { 1 } else { 0 }, "C15: a delivered buffer is queued exactly once");
    } else {
        assert!(apk::vk_sender(&policy).len() == occ, "C15: no hand-over, queue untouched");
    }
    let mut some_was_full = false;
    i = 0;
    while i < 2 { if i < psize && fill[i] == bsize { some_was_full = true; } i += 1; }
    assert!(handed_over == 0 || some_was_full, "C15: only a full buffer is handed over");
    kani::cover!(!some_was_full || (dropped > 0 && !consumer_gone), "saturated consumer: whole buffer dropped and counted");
    kani::cover!(!some_was_full || (dropped > 0 && consumer_gone), "consumer gone: buffer dropped and counted");
    kani::cover!(!some_was_full || added == bsize as u64, "whole buffer delivered");
    kani::cover!(some_was_full || handed_over == 0, "record buffered without hand-over");
    vs::edge_covers();
    core::mem::forget(pool);
}
