//! Constructors for src/cache/key_description.rs
#![allow(unused_imports, dead_code)]
use super::*;
pub(crate) fn vk_key<K: Hash + Eq + Clone>(d: &KeyDescription<K>) -> &K { &d.key }

// ---- scratch experiments on constant propagation through the set model
use crate::cache::verif_rt::collections::HashSet as VSet;
struct Holder { s: VSet<u64>, n: usize }
fn mk() -> (Vec<u64>, VSet<u64>) { let mut s = VSet::new(); s.insert(1); (Vec::new(), s) }
#[kani::proof]
#[kani::unwind(6)]
fn zz_set_a() {
    let mut s: VSet<u64> = VSet::new();
    s.insert(1);
    s.insert(2);
    assert!(s.contains(&1));
}
#[kani::proof]
#[kani::unwind(6)]
fn zz_set_b() {
    let (_v, s) = mk();
    let mut h = Holder { s, n: 3 };
    h.s.insert(2);
    assert!(h.s.contains(&1) && h.n == 3);
}
