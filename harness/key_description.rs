//! Constructors for src/cache/key_description.rs
#![allow(unused_imports, dead_code)]
use super::*;
pub(crate) fn vk_key<K: Hash + Eq + Clone>(d: &KeyDescription<K>) -> &K { &d.key }
