//! Verification model of `crossbeam-channel 0.5` — subset used by CacheD:
//! `bounded`, `Sender::{send, clone}`, `Receiver::{recv, iter}`, `tick`, `select!{ send(..) -> r => .., default => .. }`.
//!
//! Contract: bounded MPSC FIFO; `send` blocks while full and fails once the receiver is gone;
//! `recv` blocks while empty and fails once empty and all senders are gone; `select!` with a
//! `default` arm is a try-send; `tick` delivers messages periodically.
//! Model: ring buffer (`QCAP` slots max; larger capacities cut the path), ghost sequence numbers,
//! blocking points hand control to the harness (`verif_sched::BLOCK_HOOK`) and re-test; a
//! blocking point that still cannot proceed *parks*: `recv` returns `Err` with
//! `verif_sched::PARKED` set (the harness stops that logical thread there), `send` cuts the path
//! unless `SEND_BLOCK_IS_FAILURE` asks for an assertion instead.
//! Layout: control words in a padding-free heap cell, payload in an uninitialised heap array (see the
//! dashmap model for why).
use verif_sched as vs;

pub const QCAP: usize = 4;

pub static mut TICKS_GRANTED: u32 = 0;
pub static mut SEND_BLOCK_IS_FAILURE: bool = false;

#[derive(PartialEq, Eq, Clone, Copy)]
pub struct SendError<T>(pub T);
impl<T> core::fmt::Debug for SendError<T> { fn fmt(&self, f: &mut core::fmt::Formatter<'_>) -> core::fmt::Result { f.write_str("SendError(..)") } }
#[derive(PartialEq, Eq, Clone, Copy, Debug)]
pub struct RecvError;
#[derive(PartialEq, Eq, Clone, Copy, Debug)]
pub enum TryRecvError { Empty, Disconnected }

/// control words, all u64 (no padding)
pub struct Ctrl {
    seq: [u64; QCAP],
    head: u64,
    len: u64,
    cap: u64,
    senders: u64,
    receivers: u64,
    is_tick: u64,
    class: u64,
    /// the consumer is blocked in recv() (the sequential model makes recv return Err and the thread body end;
    /// the drop of its Receiver that follows must NOT count as the consumer going away)
    parked: u64,
    // ghost
    pub sent: u64,
    pub received: u64,
    pub last_received_seq: u64,
    pub fifo_ok: u64,
}

/// `bufp` points to a small cell holding the address of the slot array, so that a harness can re-point the queue
/// at slots living on ITS OWN STACK (`vk_use_storage`): CBMC keeps the enum discriminant of a queued command
/// constant only when the slot is a typed stack object; through a (byte-array typed) heap slot the worker would
/// explore every command arm for every dequeued command.
pub struct Sender<T> { c: *mut Ctrl, bufp: *mut *mut [Option<T>; QCAP] }
pub struct Receiver<T> { c: *mut Ctrl, bufp: *mut *mut [Option<T>; QCAP] }
unsafe impl<T: Send> Send for Sender<T> {}
unsafe impl<T: Send> Sync for Sender<T> {}
unsafe impl<T: Send> Send for Receiver<T> {}
unsafe impl<T: Send> Sync for Receiver<T> {}

fn new_chan<T>(cap: usize, is_tick: bool) -> (*mut Ctrl, *mut *mut [Option<T>; QCAP]) {
    if cap > QCAP { vs::out_of_bound(); }
    let c = Ctrl {
        seq: [0; QCAP], head: 0, len: 0, cap: (if cap > QCAP { QCAP } else { cap }) as u64,
        senders: 1, receivers: 1, is_tick: is_tick as u64, class: vs::CL_NONE as u64, parked: 0,
        sent: 0, received: 0, last_received_seq: 0, fifo_ok: 1,
    };
    // payload slots: `Option<T>` written with TYPED stores, slot by slot.  (A `MaybeUninit<T>` array is an array of
    // unions: every store / load is a byte copy and the enum discriminant of a queued command is no longer a
    // constant for CBMC - the worker then explores every command arm for every dequeued command.)
    let buf = Box::into_raw(Box::<[Option<T>; QCAP]>::new_uninit()) as *mut [Option<T>; QCAP];
    let mut i = 0;
    while i < QCAP { unsafe { core::ptr::write((buf as *mut Option<T>).add(i), None); } i += 1; }
    (Box::into_raw(Box::new(c)), Box::into_raw(Box::new(buf)))
}

pub fn bounded<T>(cap: usize) -> (Sender<T>, Receiver<T>) {
    let (c, bufp) = new_chan::<T>(cap, false);
    (Sender { c, bufp }, Receiver { c, bufp })
}
pub fn tick(_d: std::time::Duration) -> Receiver<std::time::Instant> {
    let (c, bufp) = new_chan::<std::time::Instant>(0, true);
    Receiver { c, bufp }
}

#[inline(always)]
fn push<T>(c: &mut Ctrl, buf: *mut [Option<T>; QCAP], v: T) {
    let i = ((c.head + c.len) % QCAP as u64) as usize;
    unsafe { core::ptr::write((buf as *mut Option<T>).add(i), Some(v)); }
    c.sent += 1;
    c.seq[i] = c.sent;
    c.len += 1;
}
#[inline(always)]
fn pop<T>(c: &mut Ctrl, buf: *mut [Option<T>; QCAP]) -> T {
    let i = c.head as usize;
    let v = match unsafe { core::ptr::read((buf as *mut Option<T>).add(i)) } { Some(v) => v, None => { vs::infeasible(); unsafe { core::mem::zeroed() } } };
    unsafe { core::ptr::write((buf as *mut Option<T>).add(i), None); }
    if c.seq[i] != c.last_received_seq + 1 { c.fifo_ok = 0; }
    c.last_received_seq = c.seq[i];
    c.head = (c.head + 1) % QCAP as u64;
    c.len -= 1;
    c.received += 1;
    v
}

impl<T> Sender<T> {
    #[allow(clippy::mut_from_ref)]
    fn c(&self) -> &mut Ctrl { unsafe { &mut *self.c } }
    pub fn send(&self, msg: T) -> Result<(), SendError<T>> {
        vs::schedule_point(vs::S_Q_SEND);
        vs::note_may_block(self.c().class as u8);
        if self.c().receivers == 0 { return Err(SendError(msg)); }
        if self.c().len >= self.c().cap {
            vs::note_blocking(self.c().class as u8);
            if let Some(h) = unsafe { vs::BLOCK_HOOK } { h(self.c().class as u8); }
            if self.c().receivers == 0 { return Err(SendError(msg)); }
            if self.c().len >= self.c().cap {
                // nobody can make room: the sender would wait forever
                assert!(!unsafe { SEND_BLOCK_IS_FAILURE }, "VK-DEADLOCK: send blocks forever on a full queue");
                vs::infeasible();
            }
        }
        push(self.c(), unsafe { *self.bufp }, msg);
        Ok(())
    }
    /// used by the `select!` model: `None` = the operation is not ready (queue full)
    pub fn vk_try_send(&self, msg: T) -> Option<Result<(), SendError<T>>> {
        vs::schedule_point(vs::S_Q_SEND);
        if self.c().receivers == 0 { return Some(Err(SendError(msg))); }
        if self.c().len >= self.c().cap { core::mem::forget(msg); return None; }
        push(self.c(), unsafe { *self.bufp }, msg);
        Some(Ok(()))
    }
    pub fn vk_chan(&self) -> ChanView<'_, T> { ChanView { c: self.c(), buf: unsafe { *self.bufp } } }
    /// another handle on the receiving end (for a harness that lets a fresh body of the consumer thread continue
    /// where a parked one stopped); does not change the receiver count
    pub fn vk_receiver_handle(&self) -> Receiver<T> { Receiver { c: self.c, bufp: self.bufp } }
    pub fn vk_set_class(&self, c: u8) { self.c().class = c as u64; }
    /// re-point the (empty) queue at caller-owned slots (a local array of the harness function)
    pub fn vk_use_storage(&self, slots: *mut [Option<T>; QCAP]) {
        assert!(self.c().len == 0);
        let mut i = 0;
        while i < QCAP { unsafe { core::ptr::write((slots as *mut Option<T>).add(i), None); } i += 1; }
        unsafe { *self.bufp = slots; }
    }
    pub fn len(&self) -> usize { self.c().len as usize }
    pub fn is_empty(&self) -> bool { self.c().len == 0 }
    pub fn is_full(&self) -> bool { self.c().len >= self.c().cap }
    pub fn capacity(&self) -> Option<usize> { Some(self.c().cap as usize) }
}
impl<T> Clone for Sender<T> { fn clone(&self) -> Self { self.c().senders += 1; Sender { c: self.c, bufp: self.bufp } } }
impl<T> Drop for Sender<T> { fn drop(&mut self) { let c = self.c(); if c.senders > 0 { c.senders -= 1; } } }

impl<T> Receiver<T> {
    #[allow(clippy::mut_from_ref)]
    fn c(&self) -> &mut Ctrl { unsafe { &mut *self.c } }
    pub fn recv(&self) -> Result<T, RecvError> {
        vs::schedule_point(vs::S_Q_RECV);
        if self.c().is_tick != 0 {
            unsafe {
                if TICKS_GRANTED > 0 { TICKS_GRANTED -= 1; return Ok(core::mem::zeroed()); }
                vs::PARKED = true;
            }
            return Err(RecvError);
        }
        if self.c().len == 0 {
            if self.c().senders == 0 { return Err(RecvError); }
            if let Some(h) = unsafe { vs::RECV_BLOCK_HOOK } { h(self.c().class as u8); }
            if self.c().len == 0 {
                if self.c().senders > 0 { unsafe { vs::PARKED = true; } self.c().parked = 1; }
                return Err(RecvError);
            }
        }
        Ok(pop(self.c(), unsafe { *self.bufp }))
    }
    pub fn try_recv(&self) -> Result<T, TryRecvError> {
        vs::schedule_point(vs::S_Q_RECV);
        if self.c().len == 0 { return Err(if self.c().senders == 0 { TryRecvError::Disconnected } else { TryRecvError::Empty }); }
        Ok(pop(self.c(), unsafe { *self.bufp }))
    }
    pub fn iter(&self) -> Iter<'_, T> { Iter { r: self } }
    pub fn try_iter(&self) -> TryIter<'_, T> { TryIter { r: self } }
    pub fn vk_chan(&self) -> ChanView<'_, T> { ChanView { c: self.c(), buf: unsafe { *self.bufp } } }
    pub fn vk_set_class(&self, c: u8) { self.c().class = c as u64; }
    pub fn len(&self) -> usize { self.c().len as usize }
    pub fn is_empty(&self) -> bool { self.c().len == 0 }
}
impl<T> Clone for Receiver<T> { fn clone(&self) -> Self { self.c().receivers += 1; Receiver { c: self.c, bufp: self.bufp } } }
impl<T> Drop for Receiver<T> {
    fn drop(&mut self) {
        let c = self.c();
        if c.parked != 0 { c.parked = 0; return; }   // the thread is still blocked in recv(): the receiver stays alive
        if c.receivers > 0 { c.receivers -= 1; }
    }
}

pub struct TryIter<'a, T> { r: &'a Receiver<T> }
impl<'a, T> Iterator for TryIter<'a, T> {
    type Item = T;
    // same as `self.r.try_recv().ok()`, without building the intermediate Result<T, TryRecvError> (its two-level niche layout
    // made CBMC lose the constant discriminant of the popped command)
    fn next(&mut self) -> Option<T> {
        vs::schedule_point(vs::S_Q_RECV);
        if self.r.c().len == 0 { return None; }
        Some(pop(self.r.c(), unsafe { *self.r.bufp }))
    }
}
pub struct Iter<'a, T> { r: &'a Receiver<T> }
impl<'a, T> Iterator for Iter<'a, T> { type Item = T; fn next(&mut self) -> Option<T> { self.r.recv().ok() } }

/// harness view of a channel
pub struct ChanView<'a, T> { c: &'a mut Ctrl, buf: *mut [Option<T>; QCAP] }
impl<'a, T> ChanView<'a, T> {
    pub fn vk_len(&self) -> usize { self.c.len as usize }
    pub fn vk_cap(&self) -> usize { self.c.cap as usize }
    pub fn vk_receivers(&self) -> u32 { self.c.receivers as u32 }
    pub fn vk_senders(&self) -> u32 { self.c.senders as u32 }
    pub fn sent(&self) -> u32 { self.c.sent as u32 }
    pub fn received(&self) -> u32 { self.c.received as u32 }
    pub fn fifo_ok(&self) -> bool { self.c.fifo_ok != 0 }
    pub fn vk_peek(&self, k: usize) -> Option<&'a T> {
        if (k as u64) < self.c.len { unsafe { (*self.buf)[((self.c.head + k as u64) % QCAP as u64) as usize].as_ref() } } else { None }
    }
}

/// `select!` — only the shape CacheD uses: one `send` arm and a `default` arm (= try-send).
#[macro_export]
macro_rules! select {
    ( send($s:expr, $m:expr) -> $res:pat => $body:block $(,)? default => $def:block $(,)? ) => {{
        let __vk_sender = $s;
        match $crate::Sender::vk_try_send(&__vk_sender, $m) {
            Some($res) => $body,
            None => $def,
        }
    }};
}
