//! Verification model of `crossbeam-channel 0.5` — subset used by CacheD:
//! `bounded`, `Sender::{send, clone}`, `Receiver::{recv, iter}`, `tick`, `select!{ send(..) -> r => .., default => .. }`.
//!
//! Contract: bounded MPSC FIFO; `send` blocks while full and fails once the receiver is gone;
//! `recv` blocks while empty and fails once empty and all senders are gone; `select!` with a
//! `default` arm is a try-send; `tick` delivers messages periodically.
//! Model: ring buffer (`QCAP` slots max; larger capacities cut the path), ghost sequence numbers,
//! blocking points hand control to the harness (`verif_sched::BLOCK_HOOK`) and re-test; a
//! blocking point that still cannot proceed *parks*: `recv` returns `Err` with
//! `verif_sched::PARKED` set (the harness stops that logical thread there), `send` cuts the path
//! unless `SEND_BLOCK_IS_FAILURE` asks for an assertion instead.
use core::mem::MaybeUninit;
use verif_sched as vs;

pub const QCAP: usize = 16;

pub static mut TICKS_GRANTED: u32 = 0;
pub static mut SEND_BLOCK_IS_FAILURE: bool = false;

#[derive(PartialEq, Eq, Clone, Copy)]
pub struct SendError<T>(pub T);
impl<T> core::fmt::Debug for SendError<T> { fn fmt(&self, f: &mut core::fmt::Formatter<'_>) -> core::fmt::Result { f.write_str("SendError(..)") } }
#[derive(PartialEq, Eq, Clone, Copy, Debug)]
pub struct RecvError;
#[derive(PartialEq, Eq, Clone, Copy, Debug)]
pub enum TryRecvError { Empty, Disconnected }

pub struct Chan<T> {
    buf: [MaybeUninit<T>; QCAP],
    seq: [u32; QCAP],
    head: usize,
    len: usize,
    cap: usize,
    senders: u32,
    receivers: u32,
    is_tick: bool,
    class: u8,
    // ghost
    pub sent: u32,
    pub received: u32,
    pub last_received_seq: u32,
    pub fifo_ok: bool,
}

pub struct Sender<T> { ch: *mut Chan<T> }
pub struct Receiver<T> { ch: *mut Chan<T> }
unsafe impl<T: Send> Send for Sender<T> {}
unsafe impl<T: Send> Sync for Sender<T> {}
unsafe impl<T: Send> Send for Receiver<T> {}
unsafe impl<T: Send> Sync for Receiver<T> {}

fn new_chan<T>(cap: usize, is_tick: bool) -> *mut Chan<T> {
    if cap > QCAP { vs::out_of_bound(); }
    let c = Chan {
        buf: unsafe { MaybeUninit::uninit().assume_init() },
        seq: [0; QCAP], head: 0, len: 0, cap: if cap > QCAP { QCAP } else { cap },
        senders: 1, receivers: 1, is_tick, class: vs::CL_NONE,
        sent: 0, received: 0, last_received_seq: 0, fifo_ok: true,
    };
    Box::leak(Box::new(c)) as *mut Chan<T>
}

pub fn bounded<T>(cap: usize) -> (Sender<T>, Receiver<T>) {
    let c = new_chan::<T>(cap, false);
    (Sender { ch: c }, Receiver { ch: c })
}
pub fn tick(_d: std::time::Duration) -> Receiver<std::time::Instant> {
    let c = new_chan::<std::time::Instant>(0, true);
    Receiver { ch: c }
}

impl<T> Chan<T> {
    #[inline(always)]
    fn push(&mut self, v: T) {
        let i = (self.head + self.len) % QCAP;
        self.buf[i] = MaybeUninit::new(v);
        self.sent += 1;
        self.seq[i] = self.sent;
        self.len += 1;
    }
    #[inline(always)]
    fn pop(&mut self) -> T {
        let i = self.head;
        let v = unsafe { self.buf[i].assume_init_read() };
        if self.seq[i] != self.last_received_seq + 1 { self.fifo_ok = false; }
        self.last_received_seq = self.seq[i];
        self.head = (self.head + 1) % QCAP;
        self.len -= 1;
        self.received += 1;
        v
    }
}

impl<T> Sender<T> {
    #[allow(clippy::mut_from_ref)]
    fn c(&self) -> &mut Chan<T> { unsafe { &mut *self.ch } }
    pub fn send(&self, msg: T) -> Result<(), SendError<T>> {
        vs::schedule_point(vs::S_Q_SEND);
        if self.c().receivers == 0 { return Err(SendError(msg)); }
        if self.c().len >= self.c().cap {
            vs::note_blocking(self.c().class);
            if let Some(h) = unsafe { vs::BLOCK_HOOK } { h(self.c().class); }
            if self.c().receivers == 0 { return Err(SendError(msg)); }
            if self.c().len >= self.c().cap {
                // nobody can make room: the sender would wait forever
                assert!(!unsafe { SEND_BLOCK_IS_FAILURE }, "VK-DEADLOCK: send blocks forever on a full queue");
                vs::infeasible();
            }
        }
        self.c().push(msg);
        Ok(())
    }
    /// used by the `select!` model: `None` = the operation is not ready (queue full)
    pub fn vk_try_send(&self, msg: T) -> Option<Result<(), SendError<T>>> {
        vs::schedule_point(vs::S_Q_SEND);
        if self.c().receivers == 0 { return Some(Err(SendError(msg))); }
        if self.c().len >= self.c().cap { core::mem::forget(msg); return None; }
        self.c().push(msg);
        Some(Ok(()))
    }
    pub fn vk_chan(&self) -> &mut Chan<T> { self.c() }
    pub fn vk_set_class(&self, c: u8) { self.c().class = c; }
    pub fn len(&self) -> usize { self.c().len }
    pub fn is_empty(&self) -> bool { self.c().len == 0 }
    pub fn is_full(&self) -> bool { self.c().len >= self.c().cap }
    pub fn capacity(&self) -> Option<usize> { Some(self.c().cap) }
}
impl<T> Clone for Sender<T> { fn clone(&self) -> Self { self.c().senders += 1; Sender { ch: self.ch } } }
impl<T> Drop for Sender<T> { fn drop(&mut self) { let c = self.c(); if c.senders > 0 { c.senders -= 1; } } }

impl<T> Receiver<T> {
    #[allow(clippy::mut_from_ref)]
    fn c(&self) -> &mut Chan<T> { unsafe { &mut *self.ch } }
    pub fn recv(&self) -> Result<T, RecvError> {
        vs::schedule_point(vs::S_Q_RECV);
        if self.c().is_tick {
            unsafe {
                if TICKS_GRANTED > 0 { TICKS_GRANTED -= 1; return Ok(core::mem::zeroed()); }
                vs::PARKED = true;
            }
            return Err(RecvError);
        }
        if self.c().len == 0 {
            if self.c().senders == 0 { return Err(RecvError); }
            if let Some(h) = unsafe { vs::BLOCK_HOOK } { h(self.c().class); }
            if self.c().len == 0 {
                if self.c().senders > 0 { unsafe { vs::PARKED = true; } }
                return Err(RecvError);
            }
        }
        Ok(self.c().pop())
    }
    pub fn try_recv(&self) -> Result<T, TryRecvError> {
        if self.c().len == 0 { return Err(if self.c().senders == 0 { TryRecvError::Disconnected } else { TryRecvError::Empty }); }
        Ok(self.c().pop())
    }
    pub fn iter(&self) -> Iter<'_, T> { Iter { r: self } }
    pub fn vk_chan(&self) -> &mut Chan<T> { self.c() }
    pub fn vk_set_class(&self, c: u8) { self.c().class = c; }
    pub fn len(&self) -> usize { self.c().len }
    pub fn is_empty(&self) -> bool { self.c().len == 0 }
}
impl<T> Clone for Receiver<T> { fn clone(&self) -> Self { self.c().receivers += 1; Receiver { ch: self.ch } } }
impl<T> Drop for Receiver<T> { fn drop(&mut self) { let c = self.c(); if c.receivers > 0 { c.receivers -= 1; } } }

pub struct Iter<'a, T> { r: &'a Receiver<T> }
impl<'a, T> Iterator for Iter<'a, T> { type Item = T; fn next(&mut self) -> Option<T> { self.r.recv().ok() } }

impl<T> Chan<T> {
    pub fn vk_len(&self) -> usize { self.len }
    pub fn vk_cap(&self) -> usize { self.cap }
    pub fn vk_receivers(&self) -> u32 { self.receivers }
    pub fn vk_senders(&self) -> u32 { self.senders }
    pub fn vk_peek(&self, k: usize) -> Option<&T> {
        if k < self.len { Some(unsafe { self.buf[(self.head + k) % QCAP].assume_init_ref() }) } else { None }
    }
}

/// `select!` — only the shape CacheD uses: one `send` arm and a `default` arm (= try-send).
#[macro_export]
macro_rules! select {
    ( send($s:expr, $m:expr) -> $res:pat => $body:block $(,)? default => $def:block $(,)? ) => {{
        let __vk_sender = $s;
        match $crate::Sender::vk_try_send(&__vk_sender, $m) {
            Some($res) => $body,
            None => $def,
        }
    }};
}
