//! Verification model of `rand 0.8`: every draw is a solver-chosen value of its type / range.
use core::ops::Range;
use verif_sched as vs;
pub struct ThreadRng;
pub fn thread_rng() -> ThreadRng { ThreadRng }
pub trait Standard: Sized { fn vk_any() -> Self; }
impl Standard for u64 { fn vk_any() -> u64 { vs::any_u64() } }
impl Standard for usize { fn vk_any() -> usize { vs::any_u64() as usize } }
impl Standard for bool { fn vk_any() -> bool { vs::any_bool() } }
pub trait SampleRange<T> { fn vk_sample(self) -> T; }
impl SampleRange<usize> for Range<usize> {
    fn vk_sample(self) -> usize {
        assert!(self.start < self.end, "cannot sample empty range");
        if self.end - self.start == 1 { return self.start; }   // keep the draw concrete when there is no choice
        self.start + vs::any_usize_below(self.end - self.start)
    }
}
impl SampleRange<u64> for Range<u64> {
    fn vk_sample(self) -> u64 {
        assert!(self.start < self.end, "cannot sample empty range");
        self.start + vs::any_usize_below((self.end - self.start) as usize) as u64
    }
}
pub trait Rng {
    fn gen<T: Standard>(&mut self) -> T { T::vk_any() }
    fn gen_range<T, R: SampleRange<T>>(&mut self, range: R) -> T { range.vk_sample() }
}
impl Rng for ThreadRng {}
pub mod prelude { pub use super::{thread_rng, Rng, ThreadRng}; }
