//! Verification model of `hashbrown::HashMap` (sequential map): array backed, `HCAP` entries,
//! `retain` visits in slot order.  No hashing.  No drop glue.
use core::borrow::Borrow;
use core::mem::MaybeUninit;
pub const HCAP: usize = 4;

pub struct HashMap<K, V> {
    used: [bool; HCAP],
    keys: [MaybeUninit<K>; HCAP],
    vals: [MaybeUninit<V>; HCAP],
}
impl<K: Eq, V> Default for HashMap<K, V> { fn default() -> Self { Self::new() } }
impl<K: Eq, V> HashMap<K, V> {
    pub fn new() -> Self {
        HashMap { used: [false; HCAP], keys: unsafe { MaybeUninit::uninit().assume_init() }, vals: unsafe { MaybeUninit::uninit().assume_init() } }
    }
    #[inline(always)]
    fn find<Q>(&self, k: &Q) -> usize where K: Borrow<Q>, Q: Eq + ?Sized {
        let mut idx = HCAP; let mut i = 0;
        while i < HCAP { if idx == HCAP && self.used[i] && unsafe { self.keys[i].assume_init_ref() }.borrow() == k { idx = i; } i += 1; }
        idx
    }
    pub fn insert(&mut self, k: K, v: V) -> Option<V> {
        let idx = self.find(&k);
        if idx < HCAP {
            let old = unsafe { self.vals[idx].assume_init_read() };
            self.vals[idx] = MaybeUninit::new(v);
            core::mem::forget(k);
            return Some(old);
        }
        let mut f = HCAP; let mut i = 0;
        while i < HCAP { if f == HCAP && !self.used[i] { f = i; } i += 1; }
        if f >= HCAP {
            #[cfg(kani)] kani::assume(false);
            f = 0;
        }
        self.used[f] = true; self.keys[f] = MaybeUninit::new(k); self.vals[f] = MaybeUninit::new(v);
        None
    }
    pub fn remove<Q>(&mut self, k: &Q) -> Option<V> where K: Borrow<Q>, Q: Eq + ?Sized {
        let idx = self.find(k);
        if idx < HCAP { self.used[idx] = false; Some(unsafe { self.vals[idx].assume_init_read() }) } else { None }
    }
    pub fn get<Q>(&self, k: &Q) -> Option<&V> where K: Borrow<Q>, Q: Eq + ?Sized {
        let idx = self.find(k);
        if idx < HCAP { Some(unsafe { self.vals[idx].assume_init_ref() }) } else { None }
    }
    pub fn contains_key<Q>(&self, k: &Q) -> bool where K: Borrow<Q>, Q: Eq + ?Sized { self.find(k) < HCAP }
    pub fn clear(&mut self) { let mut i = 0; while i < HCAP { self.used[i] = false; i += 1; } }
    pub fn len(&self) -> usize { let mut n = 0; let mut i = 0; while i < HCAP { if self.used[i] { n += 1; } i += 1; } n }
    pub fn is_empty(&self) -> bool { self.len() == 0 }
    pub fn retain<F: FnMut(&K, &mut V) -> bool>(&mut self, mut f: F) {
        let mut i = 0;
        while i < HCAP {
            if self.used[i] {
                let keep = f(unsafe { self.keys[i].assume_init_ref() }, unsafe { self.vals[i].assume_init_mut() });
                if !keep { self.used[i] = false; }
            }
            i += 1;
        }
    }
    pub fn vk_slot(&self, i: usize) -> Option<(&K, &V)> {
        if i < HCAP && self.used[i] { Some(unsafe { (self.keys[i].assume_init_ref(), self.vals[i].assume_init_ref()) }) } else { None }
    }
    pub fn vk_place(&mut self, i: usize, k: K, v: V) { self.used[i] = true; self.keys[i] = MaybeUninit::new(k); self.vals[i] = MaybeUninit::new(v); }
}
