//! Verification model of `hashbrown::HashMap` (sequential map): array backed, `HCAP` entries,
//! `retain` visits in slot order.  No hashing.  No drop glue.  State out of line in padding-free cells
//! (see the dashmap model for why).
use core::borrow::Borrow;
use core::mem::MaybeUninit;
pub const HCAP: usize = 4;

pub struct HashMap<K, V> {
    used: *mut [u64; HCAP],
    keys: *mut [MaybeUninit<K>; HCAP],
    vals: *mut [MaybeUninit<V>; HCAP],
}
unsafe impl<K: Send, V: Send> Send for HashMap<K, V> {}
unsafe impl<K: Sync, V: Sync> Sync for HashMap<K, V> {}
impl<K: Eq, V> Default for HashMap<K, V> { fn default() -> Self { Self::new() } }
impl<K, V> HashMap<K, V> {
    #[inline(always)] #[allow(clippy::mut_from_ref)]
    fn used(&self) -> &mut [u64; HCAP] { unsafe { &mut *self.used } }
    #[inline(always)] #[allow(clippy::mut_from_ref)]
    fn keys(&self) -> &mut [MaybeUninit<K>; HCAP] { unsafe { &mut *self.keys } }
    #[inline(always)] #[allow(clippy::mut_from_ref)]
    fn vals(&self) -> &mut [MaybeUninit<V>; HCAP] { unsafe { &mut *self.vals } }
}
impl<K: Eq, V> HashMap<K, V> {
    pub fn new() -> Self {
        HashMap {
            used: Box::into_raw(Box::new([0u64; HCAP])),
            keys: Box::into_raw(Box::<[MaybeUninit<K>; HCAP]>::new_uninit()) as *mut [MaybeUninit<K>; HCAP],
            vals: Box::into_raw(Box::<[MaybeUninit<V>; HCAP]>::new_uninit()) as *mut [MaybeUninit<V>; HCAP],
        }
    }
    #[inline(always)]
    fn find<Q>(&self, k: &Q) -> usize where K: Borrow<Q>, Q: Eq + ?Sized {
        let (used, keys) = (self.used(), self.keys());
        let mut idx = HCAP; let mut i = 0;
        while i < HCAP { if idx == HCAP && used[i] != 0 && unsafe { keys[i].assume_init_ref() }.borrow() == k { idx = i; } i += 1; }
        idx
    }
    pub fn insert(&mut self, k: K, v: V) -> Option<V> {
        let idx = self.find(&k);
        if idx < HCAP {
            let old = unsafe { self.vals()[idx].assume_init_read() };
            self.vals()[idx] = MaybeUninit::new(v);
            core::mem::forget(k);
            return Some(old);
        }
        let used = self.used();
        let mut f = HCAP; let mut i = 0;
        while i < HCAP { if f == HCAP && used[i] == 0 { f = i; } i += 1; }
        if f >= HCAP {
            #[cfg(kani)] kani::assume(false);
            f = 0;
        }
        used[f] = 1; self.keys()[f] = MaybeUninit::new(k); self.vals()[f] = MaybeUninit::new(v);
        None
    }
    pub fn remove<Q>(&mut self, k: &Q) -> Option<V> where K: Borrow<Q>, Q: Eq + ?Sized {
        let idx = self.find(k);
        if idx < HCAP { self.used()[idx] = 0; Some(unsafe { self.vals()[idx].assume_init_read() }) } else { None }
    }
    pub fn get<Q>(&self, k: &Q) -> Option<&V> where K: Borrow<Q>, Q: Eq + ?Sized {
        let idx = self.find(k);
        if idx < HCAP { Some(unsafe { self.vals()[idx].assume_init_ref() }) } else { None }
    }
    pub fn contains_key<Q>(&self, k: &Q) -> bool where K: Borrow<Q>, Q: Eq + ?Sized { self.find(k) < HCAP }
    pub fn clear(&mut self) { let used = self.used(); let mut i = 0; while i < HCAP { used[i] = 0; i += 1; } }
    pub fn len(&self) -> usize { let used = self.used(); let mut n = 0; let mut i = 0; while i < HCAP { if used[i] != 0 { n += 1; } i += 1; } n }
    pub fn is_empty(&self) -> bool { self.len() == 0 }
    pub fn retain<F: FnMut(&K, &mut V) -> bool>(&mut self, mut f: F) {
        let mut i = 0;
        while i < HCAP {
            if self.used()[i] != 0 {
                let keep = f(unsafe { self.keys()[i].assume_init_ref() }, unsafe { self.vals()[i].assume_init_mut() });
                if !keep { self.used()[i] = 0; }
            }
            i += 1;
        }
    }
    pub fn vk_slot(&self, i: usize) -> Option<(&K, &V)> {
        if i < HCAP && self.used()[i] != 0 { Some(unsafe { (self.keys()[i].assume_init_ref(), self.vals()[i].assume_init_ref()) }) } else { None }
    }
    pub fn vk_place(&mut self, i: usize, k: K, v: V) { self.used()[i] = 1; self.keys()[i] = MaybeUninit::new(k); self.vals()[i] = MaybeUninit::new(v); }
}
