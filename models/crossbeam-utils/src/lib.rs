//! Verification model of `crossbeam_utils::CachePadded<T>`: a transparent wrapper.  The real type aligns to
//! 128 bytes (a performance hint without semantic content); the 120 padding bytes per counter make Kani copy
//! the statistics block byte-wise and defeat CBMC's constant propagation.
use core::ops::{Deref, DerefMut};
#[derive(Clone, Copy, Default, Hash, PartialEq, Eq, Debug)]
#[repr(transparent)]
pub struct CachePadded<T> { value: T }
impl<T> CachePadded<T> {
    pub const fn new(t: T) -> CachePadded<T> { CachePadded { value: t } }
    pub fn into_inner(self) -> T { self.value }
}
impl<T> Deref for CachePadded<T> { type Target = T; fn deref(&self) -> &T { &self.value } }
impl<T> DerefMut for CachePadded<T> { fn deref_mut(&mut self) -> &mut T { &mut self.value } }
impl<T> From<T> for CachePadded<T> { fn from(t: T) -> Self { CachePadded::new(t) } }
