// intentionally empty: tinylfu-cached declares num but never uses it
