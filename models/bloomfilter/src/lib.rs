//! Verification model of `bloomfilter::Bloom`.
//! Contract: set membership with NO false negatives; false positives possible and stable until
//! `clear`.  Model: exact set of up to `BCAP` items (identified by the u64 the item feeds to its
//! `Hash` impl) plus up to two solver-chosen false-positive items that stay fixed until `clear`.
use core::hash::{Hash, Hasher};
use core::marker::PhantomData;
use verif_sched as vs;
pub const BCAP: usize = 4;

struct Capture(u64);
impl Hasher for Capture {
    fn finish(&self) -> u64 { self.0 }
    fn write(&mut self, bytes: &[u8]) { let mut i = 0; while i < bytes.len() { self.0 = self.0.rotate_left(8) ^ bytes[i] as u64; i += 1; } }
    fn write_u64(&mut self, v: u64) { self.0 = v; }
    fn write_usize(&mut self, v: usize) { self.0 = v as u64; }
}
fn ident<T: Hash + ?Sized>(t: &T) -> u64 { let mut c = Capture(0); t.hash(&mut c); c.0 }

pub struct Bloom<T: ?Sized> {
    used: [u64; BCAP],
    items: [u64; BCAP],
    fp_on: [u64; 2],
    fp: [u64; 2],
    _t: PhantomData<T>,
}
impl<T: ?Sized> Bloom<T> {
    pub fn new_for_fp_rate(items_count: usize, fp_p: f64) -> Self {
        // documented preconditions of the real constructor
        assert!(items_count > 0);
        assert!(fp_p > 0.0 && fp_p < 1.0);
        let mut b = Bloom { used: [0; BCAP], items: [0; BCAP], fp_on: [0; 2], fp: [0; 2], _t: PhantomData };
        b.refresh_fp();
        b
    }
    /// exact filter without false positives (state construction by harnesses)
    pub fn vk_exact() -> Self { Bloom { used: [0; BCAP], items: [0; BCAP], fp_on: [0; 2], fp: [0; 2], _t: PhantomData } }
    fn refresh_fp(&mut self) {
        self.fp_on = [vs::any_bool() as u64, vs::any_bool() as u64];
        self.fp = [vs::any_u64(), vs::any_u64()];
    }
    pub fn vk_no_false_positives(&mut self) { self.fp_on = [0, 0]; }
    pub fn vk_contains_exact(&self, id: u64) -> bool {
        let mut r = false; let mut i = 0;
        while i < BCAP { if self.used[i] != 0 && self.items[i] == id { r = true; } i += 1; }
        r
    }
    pub fn vk_place(&mut self, i: usize, id: u64) { self.used[i] = 1; self.items[i] = id; }
    pub fn vk_place_if(&mut self, i: usize, id: u64, member: bool) { self.used[i] = member as u64; self.items[i] = id; }
    pub fn vk_len(&self) -> usize { let mut n = 0; let mut i = 0; while i < BCAP { if self.used[i] != 0 { n += 1; } i += 1; } n }
    pub fn set(&mut self, item: &T) where T: Hash {
        let id = ident(item);
        if self.vk_contains_exact(id) { return; }
        let mut f = BCAP; let mut i = 0;
        while i < BCAP { if f == BCAP && self.used[i] == 0 { f = i; } i += 1; }
        if f >= BCAP { vs::out_of_bound(); f = 0; }
        self.used[f] = 1; self.items[f] = id;
    }
    pub fn check(&self, item: &T) -> bool where T: Hash {
        let id = ident(item);
        self.vk_contains_exact(id) || (self.fp_on[0] != 0 && self.fp[0] == id) || (self.fp_on[1] != 0 && self.fp[1] == id)
    }
    pub fn check_and_set(&mut self, item: &T) -> bool where T: Hash { let r = self.check(item); self.set(item); r }
    pub fn clear(&mut self) {
        let mut i = 0; while i < BCAP { self.used[i] = 0; i += 1; }
        self.refresh_fp();
    }
}
