//! Verification-only runtime shared by every model crate and by the harnesses.
//!
//! Kani executes one sequential program.  The models turn "another thread runs here" into solver
//! choices through this crate:
//!   * `schedule_point(site)` — called by every model primitive before it touches shared state;
//!     a harness may install an interferer (`set_hook`) that performs one complete foreign
//!     operation there if a solver-chosen boolean says so;
//!   * logical thread ids (`CUR`) so that the lock models know who holds what;
//!   * the lock monitor: per logical thread, which lock classes are held; every acquisition
//!     records the edges held-class -> acquired-class; re-entrant acquisition is an assertion;
//!     acquisition of a lock held by another logical thread makes the path infeasible
//!     (`assume(false)`: in reality the thread would wait, so that placement cannot be observed);
//!   * blocking hooks for the queue model.
//! Contains no CacheD logic.
#![allow(static_mut_refs)]

pub const NCLASS: usize = 12;
pub const NTHREAD: usize = 3;

// lock / queue classes (assigned by the harness support code through `set_class`)
pub const CL_NONE: u8 = 0;
pub const CL_TTL_SHARD: u8 = 1;
pub const CL_WEIGHT_MAP: u8 = 2;
pub const CL_WEIGHT_TOTAL: u8 = 3;
pub const CL_STORE: u8 = 4;
pub const CL_POOL_BUF: u8 = 5;
pub const CL_SKETCH: u8 = 6;
pub const CL_ACK_WAKER: u8 = 7;
pub const CL_ACK_STATUS: u8 = 8;
pub const CL_CMD_QUEUE: u8 = 9;
pub const CL_ACCESS_QUEUE: u8 = 10;
pub const CL_TTL_SHARD_B: u8 = 11;

// schedule-point sites
pub const S_LOCK_ACQ: u32 = 1;
pub const S_LOCK_REL: u32 = 2;
pub const S_MAP_OP: u32 = 3;
pub const S_Q_SEND: u32 = 4;
pub const S_Q_RECV: u32 = 5;
pub const S_ATOMIC: u32 = 6;
pub const S_USER: u32 = 100;

pub static mut CUR: usize = 0;
pub static mut HOOK: Option<fn(u32)> = None;
pub static mut IN_HOOK: bool = false;
pub static mut BUDGET: u8 = 0;
pub static mut FIRED: u8 = 0;
pub static mut POINTS: u32 = 0;
/// bit i set: schedule points of site i may fire the interferer (default: all)
pub static mut HOOK_SITES: u32 = 0xffff_ffff;

/// per logical thread: how many locks of each class it holds, and the same as a bitmask (bit c = class c held)
pub static mut HELD: [[u8; NCLASS]; NTHREAD] = [[0; NCLASS]; NTHREAD];
pub static mut HELD_MASK: [u32; NTHREAD] = [0; NTHREAD];
/// EDGE_MASK[b] bit a: some logical thread acquired (or blocked on) class b while holding class a
pub static mut EDGE_MASK: [u32; NCLASS] = [0; NCLASS];
pub static mut MONITOR: bool = false;
/// a blocking queue operation was reached while the current logical thread held a lock
pub static mut BLOCKED_UNDER_LOCK: bool = false;
/// a blocking (not try_) queue operation was reached at all (used by "reads never wait")
pub static mut BLOCKING_OPS: u32 = 0;
pub static mut LOCK_ACQS: u32 = 0;

/// called when send() meets a full queue / recv() an empty one: "let the peer run now"
pub static mut BLOCK_HOOK: Option<fn(u8)> = None;
/// called when recv() finds the queue empty: "let a producer run now"
pub static mut RECV_BLOCK_HOOK: Option<fn(u8)> = None;
/// recv() found nothing and nobody could produce: the logical thread parks (harness stops it)
pub static mut PARKED: bool = false;

#[inline(never)]
pub fn any_bool() -> bool {
    #[cfg(kani)]
    { kani::any() }
    #[cfg(not(kani))]
    { false }
}
#[inline(never)]
pub fn any_u64() -> u64 {
    #[cfg(kani)]
    { kani::any() }
    #[cfg(not(kani))]
    { 0 }
}
pub fn any_usize_below(n: usize) -> usize {
    #[cfg(kani)]
    { let v: usize = kani::any(); kani::assume(v < n); v }
    #[cfg(not(kani))]
    { let _ = n; 0 }
}
#[inline(always)]
pub fn infeasible() {
    #[cfg(kani)]
    kani::assume(false);
    #[cfg(not(kani))]
    panic!("verif-sched: infeasible path reached natively");
}
/// outside the stated bound (model capacity exhausted): the path is cut, never reported
#[inline(always)]
pub fn out_of_bound() {
    infeasible();
}

pub fn set_hook(h: fn(u32), budget: u8) {
    unsafe { HOOK = Some(h); BUDGET = budget; FIRED = 0; HOOK_SITES = 0xffff_ffff; FIRE_AT = 0; SEEN = 0; }
}
/// placement by harness family instead of by the solver: the interferer runs at exactly the k-th visited candidate site
/// (k >= 1; one harness per k).  Used where a solver-chosen placement makes the queue's contents symbolic and the
/// query does not complete; the rest of the harness (clock, values) stays symbolic.
pub fn set_fire_at(k: u32) { unsafe { FIRE_AT = k; SEEN = 0; } }
static mut FIRE_AT: u32 = 0;
static mut SEEN: u32 = 0;
/// restrict the placements of the interferer to the given sites (bitmask of 1 << S_*; S_USER is bit 7)
pub fn set_hook_sites(mask: u32) { unsafe { HOOK_SITES = mask; } }
pub fn clear_hook() {
    unsafe { HOOK = None; BUDGET = 0; }
}
pub fn fired() -> u8 { unsafe { FIRED } }

/// Every model primitive calls this before touching shared state.
#[inline(always)]
pub fn schedule_point(site: u32) {
    unsafe {
        POINTS += 1;
        if let Some(h) = HOOK {
            if !IN_HOOK && BUDGET > 0 && (HOOK_SITES >> (if site > 31 { 7 } else { site })) & 1 == 1 {
                SEEN += 1;
                if (FIRE_AT == 0 && any_bool()) || (FIRE_AT != 0 && SEEN == FIRE_AT) {
                    BUDGET -= 1;
                    FIRED += 1;
                    IN_HOOK = true;
                    let me = CUR;
                    CUR = if me == 0 { 1 } else { 0 };
                    h(site);
                    CUR = me;
                    IN_HOOK = false;
                }
            }
        }
    }
}

// ---------------------------------------------------------------- lock word shared by all lock models
#[derive(Clone, Copy)]
pub struct LockState {
    pub writer: u8,              // 0 = none, else logical thread + 1
    pub readers: [u8; NTHREAD],  // shared holds per logical thread
    pub class: u8,
}
impl LockState {
    pub const fn new() -> Self { LockState { writer: 0, readers: [0; NTHREAD], class: CL_NONE } }
}

/// lock word in its own small heap cell (small => written with a typed store => stays constant-propagated)
pub fn new_lock_word() -> *mut LockState { Box::into_raw(Box::new(LockState::new())) }

#[inline(always)]
fn note_acquire(class: u8) {
    unsafe {
        LOCK_ACQS += 1;
        if MONITOR && class != CL_NONE {
            let me = CUR;
            let c = class as usize;
            EDGE_MASK[c] |= HELD_MASK[me] & !(1u32 << c);
            HELD[me][c] += 1;
            HELD_MASK[me] |= 1u32 << c;
        }
    }
}
#[inline(always)]
fn note_release(class: u8) {
    unsafe {
        if MONITOR && class != CL_NONE {
            let me = CUR;
            let c = class as usize;
            if HELD[me][c] > 0 { HELD[me][c] -= 1; }
            if HELD[me][c] == 0 { HELD_MASK[me] &= !(1u32 << c); }
        }
    }
}

/// NOTE: callers issue `schedule_point` themselves, once per modelled operation, *before* acquiring.
pub fn acquire_exclusive(st: &mut LockState) {
    let me = unsafe { CUR };
    let mine = st.writer == (me as u8 + 1) || st.readers[me] > 0;
    assert!(!mine, "VK-DEADLOCK: re-entrant acquisition of a lock already held by this thread");
    let mut other = st.writer != 0;
    let mut t = 0;
    while t < NTHREAD { if t != me && st.readers[t] > 0 { other = true; } t += 1; }
    if other { infeasible(); }
    st.writer = me as u8 + 1;
    note_acquire(st.class);
}
pub fn release_exclusive(st: &mut LockState) {
    st.writer = 0;
    note_release(st.class);
}
pub fn acquire_shared(st: &mut LockState, allow_recursive: bool) {
    let me = unsafe { CUR };
    let mine_w = st.writer == (me as u8 + 1);
    assert!(!mine_w, "VK-DEADLOCK: shared acquisition of a lock this thread holds exclusively");
    if !allow_recursive {
        assert!(st.readers[me] == 0, "VK-DEADLOCK: recursive shared acquisition (deadlocks when a writer is queued)");
    }
    if st.writer != 0 { infeasible(); }
    st.readers[me] += 1;
    note_acquire(st.class);
}
pub fn release_shared(st: &mut LockState) {
    let me = unsafe { CUR };
    // a guard may be released by the thread that took it only
    if st.readers[me] > 0 { st.readers[me] -= 1; }
    note_release(st.class);
}

/// a blocking queue operation is about to wait
pub fn note_blocking(class: u8) {
    unsafe {
        BLOCKING_OPS += 1;
        if MONITOR {
            let me = CUR;
            if HELD_MASK[me] != 0 { BLOCKED_UNDER_LOCK = true; EDGE_MASK[class as usize] |= HELD_MASK[me]; }
        }
    }
}
/// a blocking send is issued (whether or not it has to wait this time): whatever the thread holds is ordered
/// before the queue
pub fn note_may_block(class: u8) {
    unsafe { if MONITOR { let me = CUR; EDGE_MASK[class as usize] |= HELD_MASK[me] & !(1u32 << class as usize); } }
}
/// the consumer thread of a queue carries the queue's progress obligation: every lock it takes is ordered
/// after the queue (a producer blocked on the full queue waits for the consumer)
pub fn consumer_holds(tid: usize, class: u8, on: bool) {
    unsafe { if on { HELD_MASK[tid] |= 1u32 << class as usize; HELD[tid][class as usize] += 1; } else { HELD_MASK[tid] &= !(1u32 << class as usize); HELD[tid][class as usize] = 0; } }
}
pub fn any_lock_held_by_current() -> bool { unsafe { HELD_MASK[CUR] != 0 } }

/// one reachability query per ordered pair of lock / queue classes: "class b was acquired (or blocked on) while
/// class a was held".  The driver collects the satisfied ones over all harnesses and checks that the union
/// graph has no cycle (C18).  Pairs never observed are constant-false and cost nothing.
/// Only evaluated when the run asks for it (`EDGES_ON`, set by harnesses from the generated config when C18 is being
/// checked): each cover is one more solver query on the harness's whole formula.
pub static mut EDGES_ON: bool = false;
#[cfg(kani)]
pub fn edge_covers() {
    if !unsafe { EDGES_ON } { return; }
    kani::cover!(unsafe { EDGE_MASK[2] } & (1u32 << 1) != 0, "EDGE 1->2");
    kani::cover!(unsafe { EDGE_MASK[3] } & (1u32 << 1) != 0, "EDGE 1->3");
    kani::cover!(unsafe { EDGE_MASK[4] } & (1u32 << 1) != 0, "EDGE 1->4");
    kani::cover!(unsafe { EDGE_MASK[5] } & (1u32 << 1) != 0, "EDGE 1->5");
    kani::cover!(unsafe { EDGE_MASK[6] } & (1u32 << 1) != 0, "EDGE 1->6");
    kani::cover!(unsafe { EDGE_MASK[7] } & (1u32 << 1) != 0, "EDGE 1->7");
    kani::cover!(unsafe { EDGE_MASK[8] } & (1u32 << 1) != 0, "EDGE 1->8");
    kani::cover!(unsafe { EDGE_MASK[9] } & (1u32 << 1) != 0, "EDGE 1->9");
    kani::cover!(unsafe { EDGE_MASK[10] } & (1u32 << 1) != 0, "EDGE 1->10");
    kani::cover!(unsafe { EDGE_MASK[11] } & (1u32 << 1) != 0, "EDGE 1->11");
    kani::cover!(unsafe { EDGE_MASK[1] } & (1u32 << 2) != 0, "EDGE 2->1");
    kani::cover!(unsafe { EDGE_MASK[3] } & (1u32 << 2) != 0, "EDGE 2->3");
    kani::cover!(unsafe { EDGE_MASK[4] } & (1u32 << 2) != 0, "EDGE 2->4");
    kani::cover!(unsafe { EDGE_MASK[5] } & (1u32 << 2) != 0, "EDGE 2->5");
    kani::cover!(unsafe { EDGE_MASK[6] } & (1u32 << 2) != 0, "EDGE 2->6");
    kani::cover!(unsafe { EDGE_MASK[7] } & (1u32 << 2) != 0, "EDGE 2->7");
    kani::cover!(unsafe { EDGE_MASK[8] } & (1u32 << 2) != 0, "EDGE 2->8");
    kani::cover!(unsafe { EDGE_MASK[9] } & (1u32 << 2) != 0, "EDGE 2->9");
    kani::cover!(unsafe { EDGE_MASK[10] } & (1u32 << 2) != 0, "EDGE 2->10");
    kani::cover!(unsafe { EDGE_MASK[11] } & (1u32 << 2) != 0, "EDGE 2->11");
    kani::cover!(unsafe { EDGE_MASK[1] } & (1u32 << 3) != 0, "EDGE 3->1");
    kani::cover!(unsafe { EDGE_MASK[2] } & (1u32 << 3) != 0, "EDGE 3->2");
    kani::cover!(unsafe { EDGE_MASK[4] } & (1u32 << 3) != 0, "EDGE 3->4");
    kani::cover!(unsafe { EDGE_MASK[5] } & (1u32 << 3) != 0, "EDGE 3->5");
    kani::cover!(unsafe { EDGE_MASK[6] } & (1u32 << 3) != 0, "EDGE 3->6");
    kani::cover!(unsafe { EDGE_MASK[7] } & (1u32 << 3) != 0, "EDGE 3->7");
    kani::cover!(unsafe { EDGE_MASK[8] } & (1u32 << 3) != 0, "EDGE 3->8");
    kani::cover!(unsafe { EDGE_MASK[9] } & (1u32 << 3) != 0, "EDGE 3->9");
    kani::cover!(unsafe { EDGE_MASK[10] } & (1u32 << 3) != 0, "EDGE 3->10");
    kani::cover!(unsafe { EDGE_MASK[11] } & (1u32 << 3) != 0, "EDGE 3->11");
    kani::cover!(unsafe { EDGE_MASK[1] } & (1u32 << 4) != 0, "EDGE 4->1");
    kani::cover!(unsafe { EDGE_MASK[2] } & (1u32 << 4) != 0, "EDGE 4->2");
    kani::cover!(unsafe { EDGE_MASK[3] } & (1u32 << 4) != 0, "EDGE 4->3");
    kani::cover!(unsafe { EDGE_MASK[5] } & (1u32 << 4) != 0, "EDGE 4->5");
    kani::cover!(unsafe { EDGE_MASK[6] } & (1u32 << 4) != 0, "EDGE 4->6");
    kani::cover!(unsafe { EDGE_MASK[7] } & (1u32 << 4) != 0, "EDGE 4->7");
    kani::cover!(unsafe { EDGE_MASK[8] } & (1u32 << 4) != 0, "EDGE 4->8");
    kani::cover!(unsafe { EDGE_MASK[9] } & (1u32 << 4) != 0, "EDGE 4->9");
    kani::cover!(unsafe { EDGE_MASK[10] } & (1u32 << 4) != 0, "EDGE 4->10");
    kani::cover!(unsafe { EDGE_MASK[11] } & (1u32 << 4) != 0, "EDGE 4->11");
    kani::cover!(unsafe { EDGE_MASK[1] } & (1u32 << 5) != 0, "EDGE 5->1");
    kani::cover!(unsafe { EDGE_MASK[2] } & (1u32 << 5) != 0, "EDGE 5->2");
    kani::cover!(unsafe { EDGE_MASK[3] } & (1u32 << 5) != 0, "EDGE 5->3");
    kani::cover!(unsafe { EDGE_MASK[4] } & (1u32 << 5) != 0, "EDGE 5->4");
    kani::cover!(unsafe { EDGE_MASK[6] } & (1u32 << 5) != 0, "EDGE 5->6");
    kani::cover!(unsafe { EDGE_MASK[7] } & (1u32 << 5) != 0, "EDGE 5->7");
    kani::cover!(unsafe { EDGE_MASK[8] } & (1u32 << 5) != 0, "EDGE 5->8");
    kani::cover!(unsafe { EDGE_MASK[9] } & (1u32 << 5) != 0, "EDGE 5->9");
    kani::cover!(unsafe { EDGE_MASK[10] } & (1u32 << 5) != 0, "EDGE 5->10");
    kani::cover!(unsafe { EDGE_MASK[11] } & (1u32 << 5) != 0, "EDGE 5->11");
    kani::cover!(unsafe { EDGE_MASK[1] } & (1u32 << 6) != 0, "EDGE 6->1");
    kani::cover!(unsafe { EDGE_MASK[2] } & (1u32 << 6) != 0, "EDGE 6->2");
    kani::cover!(unsafe { EDGE_MASK[3] } & (1u32 << 6) != 0, "EDGE 6->3");
    kani::cover!(unsafe { EDGE_MASK[4] } & (1u32 << 6) != 0, "EDGE 6->4");
    kani::cover!(unsafe { EDGE_MASK[5] } & (1u32 << 6) != 0, "EDGE 6->5");
    kani::cover!(unsafe { EDGE_MASK[7] } & (1u32 << 6) != 0, "EDGE 6->7");
    kani::cover!(unsafe { EDGE_MASK[8] } & (1u32 << 6) != 0, "EDGE 6->8");
    kani::cover!(unsafe { EDGE_MASK[9] } & (1u32 << 6) != 0, "EDGE 6->9");
    kani::cover!(unsafe { EDGE_MASK[10] } & (1u32 << 6) != 0, "EDGE 6->10");
    kani::cover!(unsafe { EDGE_MASK[11] } & (1u32 << 6) != 0, "EDGE 6->11");
    kani::cover!(unsafe { EDGE_MASK[1] } & (1u32 << 7) != 0, "EDGE 7->1");
    kani::cover!(unsafe { EDGE_MASK[2] } & (1u32 << 7) != 0, "EDGE 7->2");
    kani::cover!(unsafe { EDGE_MASK[3] } & (1u32 << 7) != 0, "EDGE 7->3");
    kani::cover!(unsafe { EDGE_MASK[4] } & (1u32 << 7) != 0, "EDGE 7->4");
    kani::cover!(unsafe { EDGE_MASK[5] } & (1u32 << 7) != 0, "EDGE 7->5");
    kani::cover!(unsafe { EDGE_MASK[6] } & (1u32 << 7) != 0, "EDGE 7->6");
    kani::cover!(unsafe { EDGE_MASK[8] } & (1u32 << 7) != 0, "EDGE 7->8");
    kani::cover!(unsafe { EDGE_MASK[9] } & (1u32 << 7) != 0, "EDGE 7->9");
    kani::cover!(unsafe { EDGE_MASK[10] } & (1u32 << 7) != 0, "EDGE 7->10");
    kani::cover!(unsafe { EDGE_MASK[11] } & (1u32 << 7) != 0, "EDGE 7->11");
    kani::cover!(unsafe { EDGE_MASK[1] } & (1u32 << 8) != 0, "EDGE 8->1");
    kani::cover!(unsafe { EDGE_MASK[2] } & (1u32 << 8) != 0, "EDGE 8->2");
    kani::cover!(unsafe { EDGE_MASK[3] } & (1u32 << 8) != 0, "EDGE 8->3");
    kani::cover!(unsafe { EDGE_MASK[4] } & (1u32 << 8) != 0, "EDGE 8->4");
    kani::cover!(unsafe { EDGE_MASK[5] } & (1u32 << 8) != 0, "EDGE 8->5");
    kani::cover!(unsafe { EDGE_MASK[6] } & (1u32 << 8) != 0, "EDGE 8->6");
    kani::cover!(unsafe { EDGE_MASK[7] } & (1u32 << 8) != 0, "EDGE 8->7");
    kani::cover!(unsafe { EDGE_MASK[9] } & (1u32 << 8) != 0, "EDGE 8->9");
    kani::cover!(unsafe { EDGE_MASK[10] } & (1u32 << 8) != 0, "EDGE 8->10");
    kani::cover!(unsafe { EDGE_MASK[11] } & (1u32 << 8) != 0, "EDGE 8->11");
    kani::cover!(unsafe { EDGE_MASK[1] } & (1u32 << 9) != 0, "EDGE 9->1");
    kani::cover!(unsafe { EDGE_MASK[2] } & (1u32 << 9) != 0, "EDGE 9->2");
    kani::cover!(unsafe { EDGE_MASK[3] } & (1u32 << 9) != 0, "EDGE 9->3");
    kani::cover!(unsafe { EDGE_MASK[4] } & (1u32 << 9) != 0, "EDGE 9->4");
    kani::cover!(unsafe { EDGE_MASK[5] } & (1u32 << 9) != 0, "EDGE 9->5");
    kani::cover!(unsafe { EDGE_MASK[6] } & (1u32 << 9) != 0, "EDGE 9->6");
    kani::cover!(unsafe { EDGE_MASK[7] } & (1u32 << 9) != 0, "EDGE 9->7");
    kani::cover!(unsafe { EDGE_MASK[8] } & (1u32 << 9) != 0, "EDGE 9->8");
    kani::cover!(unsafe { EDGE_MASK[10] } & (1u32 << 9) != 0, "EDGE 9->10");
    kani::cover!(unsafe { EDGE_MASK[11] } & (1u32 << 9) != 0, "EDGE 9->11");
    kani::cover!(unsafe { EDGE_MASK[1] } & (1u32 << 10) != 0, "EDGE 10->1");
    kani::cover!(unsafe { EDGE_MASK[2] } & (1u32 << 10) != 0, "EDGE 10->2");
    kani::cover!(unsafe { EDGE_MASK[3] } & (1u32 << 10) != 0, "EDGE 10->3");
    kani::cover!(unsafe { EDGE_MASK[4] } & (1u32 << 10) != 0, "EDGE 10->4");
    kani::cover!(unsafe { EDGE_MASK[5] } & (1u32 << 10) != 0, "EDGE 10->5");
    kani::cover!(unsafe { EDGE_MASK[6] } & (1u32 << 10) != 0, "EDGE 10->6");
    kani::cover!(unsafe { EDGE_MASK[7] } & (1u32 << 10) != 0, "EDGE 10->7");
    kani::cover!(unsafe { EDGE_MASK[8] } & (1u32 << 10) != 0, "EDGE 10->8");
    kani::cover!(unsafe { EDGE_MASK[9] } & (1u32 << 10) != 0, "EDGE 10->9");
    kani::cover!(unsafe { EDGE_MASK[11] } & (1u32 << 10) != 0, "EDGE 10->11");
    kani::cover!(unsafe { EDGE_MASK[1] } & (1u32 << 11) != 0, "EDGE 11->1");
    kani::cover!(unsafe { EDGE_MASK[2] } & (1u32 << 11) != 0, "EDGE 11->2");
    kani::cover!(unsafe { EDGE_MASK[3] } & (1u32 << 11) != 0, "EDGE 11->3");
    kani::cover!(unsafe { EDGE_MASK[4] } & (1u32 << 11) != 0, "EDGE 11->4");
    kani::cover!(unsafe { EDGE_MASK[5] } & (1u32 << 11) != 0, "EDGE 11->5");
    kani::cover!(unsafe { EDGE_MASK[6] } & (1u32 << 11) != 0, "EDGE 11->6");
    kani::cover!(unsafe { EDGE_MASK[7] } & (1u32 << 11) != 0, "EDGE 11->7");
    kani::cover!(unsafe { EDGE_MASK[8] } & (1u32 << 11) != 0, "EDGE 11->8");
    kani::cover!(unsafe { EDGE_MASK[9] } & (1u32 << 11) != 0, "EDGE 11->9");
    kani::cover!(unsafe { EDGE_MASK[10] } & (1u32 << 11) != 0, "EDGE 11->10");
    kani::cover!(unsafe { BLOCKED_UNDER_LOCK }, "EDGE blocked-under-lock");
}
#[cfg(not(kani))]
pub fn edge_covers() {}
