//! Verification model of `parking_lot 0.12`: `Mutex` and `RwLock` (new / lock / read / write).
//! The lock word lives out of line in its own small heap cell (see verif_sched::new_lock_word): objects larger
//! than a few machine words are moved with memcpy by Kani's code generator, which destroys CBMC's field-level
//! constant propagation for everything stored inline.
//! Contract: mutual exclusion, non re-entrant.  Acquiring a lock the same logical thread already
//! holds is an assertion (self-deadlock); a lock held by another logical thread makes the
//! placement infeasible.  Every acquisition is a schedule point and is reported to the monitor.
use core::cell::UnsafeCell;
use core::ops::{Deref, DerefMut};
use verif_sched as vs;

pub struct Mutex<T: ?Sized> { st: UnsafeCell<*mut vs::LockState>, data: UnsafeCell<T> }
unsafe impl<T: ?Sized + Send> Send for Mutex<T> {}
unsafe impl<T: ?Sized + Send> Sync for Mutex<T> {}
pub struct MutexGuard<'a, T: ?Sized> { m: &'a Mutex<T> }

impl<T> Mutex<T> {
    pub fn new(v: T) -> Self { Mutex { st: UnsafeCell::new(vs::new_lock_word()), data: UnsafeCell::new(v) } }
    pub fn into_inner(self) -> T { self.data.into_inner() }
}
impl<T: ?Sized> Mutex<T> {
    pub fn lock(&self) -> MutexGuard<'_, T> {
        vs::schedule_point(vs::S_LOCK_ACQ);
        vs::acquire_exclusive(unsafe { &mut **self.st.get() });
        MutexGuard { m: self }
    }
    /// also re-initialises the whole lock word in place (objects moved into a heap allocation lose CBMC's
    /// field-level constant propagation; rewriting the fields after the allocation restores it)
    /// non-blocking: `None` when another logical thread holds the lock (or this one: parking_lot's try_lock fails too)
    pub fn try_lock(&self) -> Option<MutexGuard<'_, T>> {
        vs::schedule_point(vs::S_LOCK_ACQ);
        let st = unsafe { &mut **self.st.get() };
        if st.writer != 0 { return None; }
        vs::acquire_exclusive(st);
        Some(MutexGuard { m: self })
    }
    pub fn vk_set_class(&self, c: u8) { unsafe { *self.st.get() = vs::new_lock_word(); (**self.st.get()).class = c; } }
    pub fn vk_locked(&self) -> bool { unsafe { (**self.st.get()).writer != 0 } }
    #[allow(clippy::mut_from_ref)]
    pub fn vk_data(&self) -> &mut T { unsafe { &mut *self.data.get() } }
}
impl<'a, T: ?Sized> Deref for MutexGuard<'a, T> { type Target = T; fn deref(&self) -> &T { unsafe { &*self.m.data.get() } } }
impl<'a, T: ?Sized> DerefMut for MutexGuard<'a, T> { fn deref_mut(&mut self) -> &mut T { unsafe { &mut *self.m.data.get() } } }
impl<'a, T: ?Sized> Drop for MutexGuard<'a, T> { fn drop(&mut self) { vs::schedule_point(vs::S_LOCK_REL); vs::release_exclusive(unsafe { &mut **self.m.st.get() }); } }

pub struct RwLock<T: ?Sized> { st: UnsafeCell<*mut vs::LockState>, data: UnsafeCell<T> }
unsafe impl<T: ?Sized + Send> Send for RwLock<T> {}
unsafe impl<T: ?Sized + Send + Sync> Sync for RwLock<T> {}
pub struct RwLockReadGuard<'a, T: ?Sized> { l: &'a RwLock<T> }
pub struct RwLockWriteGuard<'a, T: ?Sized> { l: &'a RwLock<T> }

impl<T> RwLock<T> {
    pub fn new(v: T) -> Self { RwLock { st: UnsafeCell::new(vs::new_lock_word()), data: UnsafeCell::new(v) } }
    pub fn into_inner(self) -> T { self.data.into_inner() }
}
impl<T: ?Sized> RwLock<T> {
    pub fn read(&self) -> RwLockReadGuard<'_, T> {
        vs::schedule_point(vs::S_LOCK_ACQ);
        vs::acquire_shared(unsafe { &mut **self.st.get() }, false);
        RwLockReadGuard { l: self }
    }
    pub fn write(&self) -> RwLockWriteGuard<'_, T> {
        vs::schedule_point(vs::S_LOCK_ACQ);
        vs::acquire_exclusive(unsafe { &mut **self.st.get() });
        RwLockWriteGuard { l: self }
    }
    /// also re-initialises the whole lock word in place (objects moved into a heap allocation lose CBMC's
    /// field-level constant propagation; rewriting the fields after the allocation restores it)
    pub fn try_read(&self) -> Option<RwLockReadGuard<'_, T>> {
        vs::schedule_point(vs::S_LOCK_ACQ);
        let st = unsafe { &mut **self.st.get() };
        if st.writer != 0 { return None; }
        vs::acquire_shared(st, true);
        Some(RwLockReadGuard { l: self })
    }
    pub fn try_write(&self) -> Option<RwLockWriteGuard<'_, T>> {
        vs::schedule_point(vs::S_LOCK_ACQ);
        let st = unsafe { &mut **self.st.get() };
        if st.writer != 0 || st.readers.iter().any(|r| *r > 0) { return None; }
        vs::acquire_exclusive(st);
        Some(RwLockWriteGuard { l: self })
    }
    pub fn vk_set_class(&self, c: u8) { unsafe { *self.st.get() = vs::new_lock_word(); (**self.st.get()).class = c; } }
    pub fn vk_locked(&self) -> bool { unsafe { let s = &**self.st.get(); s.writer != 0 || s.readers.iter().any(|r| *r > 0) } }
    #[allow(clippy::mut_from_ref)]
    pub fn vk_data(&self) -> &mut T { unsafe { &mut *self.data.get() } }
}
impl<'a, T: ?Sized> Deref for RwLockReadGuard<'a, T> { type Target = T; fn deref(&self) -> &T { unsafe { &*self.l.data.get() } } }
impl<'a, T: ?Sized> Drop for RwLockReadGuard<'a, T> { fn drop(&mut self) { vs::schedule_point(vs::S_LOCK_REL); vs::release_shared(unsafe { &mut **self.l.st.get() }); } }
impl<'a, T: ?Sized> Deref for RwLockWriteGuard<'a, T> { type Target = T; fn deref(&self) -> &T { unsafe { &*self.l.data.get() } } }
impl<'a, T: ?Sized> DerefMut for RwLockWriteGuard<'a, T> { fn deref_mut(&mut self) -> &mut T { unsafe { &mut *self.l.data.get() } } }
impl<'a, T: ?Sized> Drop for RwLockWriteGuard<'a, T> { fn drop(&mut self) { vs::schedule_point(vs::S_LOCK_REL); vs::release_exclusive(unsafe { &mut **self.l.st.get() }); } }
