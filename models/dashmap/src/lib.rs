//! Verification model of `dashmap 5.4` — only the API subset CacheD's non-test code uses (plus a few
//! neighbouring methods a refactor might reach for: try_get, try_get_mut, remove_if, retain).
//!
//! Contract taken from the real library: a linearizable concurrent map; `get / get_mut / insert /
//! remove / contains_key / clear` are atomic on the entry; `Ref / RefMut / RefMulti` keep the
//! shard lock while alive; `iter()` yields every entry once.
//! Model: ONE shard (all keys share one lock = maximal lock sharing), `CAP` slots, look-up by `Eq`
//! only (the hasher is never run), iteration in slot order.  No drop glue (contents are leaked).
//! Exceeding `CAP` cuts the path (outside the stated bound).
//!
//! Layout: the state lives OUT OF LINE in small, padding-free heap cells and uninitialised payload
//! arrays; the map itself is five pointers wide.  Reason (measured): Kani moves objects larger than a
//! couple of machine words with memcpy; when such an object contains padding bytes CBMC loses
//! field-level constant propagation for the whole object, and every later map operation is explored
//! for all slots symbolically (minutes instead of seconds).
#![allow(clippy::all)]
use core::borrow::Borrow;
use core::hash::Hash;
use core::marker::PhantomData;
use core::mem::MaybeUninit;
use core::ops::{Deref, DerefMut};
use verif_sched as vs;

pub const CAP: usize = 4;

#[derive(Clone, Default)]
pub struct RandomState;

/// typed value cell for harness-supplied STACK storage (`vk_use_value_storage`).  CBMC treats `MaybeUninit<V>` (a union)
/// as raw bytes: a value with padding bytes (CacheD's StoredValue) read back from such a cell has lost its constants, and
/// with them the niche-encoded discriminant of the `Option<(K, V)>` that `remove` returns.  A typed `Option<V>` on the
/// stack keeps them (measured: worker eviction through the real hook, out of memory -> 9 s symex).
pub struct VCell<V>(Option<V>);
impl<V> VCell<V> { pub const fn empty() -> Self { VCell(None) } }

pub struct DashMap<K, V, S = RandomState> {
    used: *mut [u64; CAP],                 // 0 / 1 per slot
    keys: *mut [MaybeUninit<K>; CAP],
    vals: *mut [MaybeUninit<V>; CAP],
    tvals: core::cell::Cell<*mut [VCell<V>; CAP]>,   // null unless the harness supplied typed stack cells
    lockp: *mut vs::LockState,
    lookupsp: *mut u64,
    _s: PhantomData<S>,
}
unsafe impl<K: Send, V: Send, S> Send for DashMap<K, V, S> {}
unsafe impl<K: Send + Sync, V: Send + Sync, S> Sync for DashMap<K, V, S> {}

impl<K: Eq + Hash, V> DashMap<K, V, RandomState> {
    pub fn new() -> Self { Self::raw() }
    pub fn with_capacity(_capacity: usize) -> Self { Self::raw() }
    pub fn with_shard_amount(shard_amount: usize) -> Self { Self::with_capacity_and_shard_amount(0, shard_amount) }
    pub fn with_capacity_and_shard_amount(_capacity: usize, shard_amount: usize) -> Self {
        // the real constructor's documented preconditions
        assert!(shard_amount > 1);
        assert!(shard_amount.is_power_of_two());
        Self::raw()
    }
}

impl<K, V, S> DashMap<K, V, S> {
    #[inline(always)] #[allow(clippy::mut_from_ref)]
    fn used(&self) -> &mut [u64; CAP] { unsafe { &mut *self.used } }
    #[inline(always)] #[allow(clippy::mut_from_ref)]
    fn keys(&self) -> &mut [MaybeUninit<K>; CAP] { unsafe { &mut *self.keys } }
    #[inline(always)] #[allow(clippy::mut_from_ref)]
    fn vals(&self) -> &mut [MaybeUninit<V>; CAP] { unsafe { &mut *self.vals } }
    #[inline(always)] #[allow(clippy::mut_from_ref)]
    fn lk(&self) -> &mut vs::LockState { unsafe { &mut *self.lockp } }
    #[inline(always)] fn typed(&self) -> bool { !self.tvals.get().is_null() }
    #[inline(always)] #[allow(clippy::mut_from_ref)]
    fn tv(&self) -> &mut [VCell<V>; CAP] { unsafe { &mut *self.tvals.get() } }
    #[inline(always)] unsafe fn vref(&self, i: usize) -> &V { if self.typed() { self.tv()[i].0.as_ref().unwrap_unchecked() } else { self.vals()[i].assume_init_ref() } }
    #[inline(always)] #[allow(clippy::mut_from_ref)]
    unsafe fn vmut(&self, i: usize) -> &mut V { if self.typed() { self.tv()[i].0.as_mut().unwrap_unchecked() } else { self.vals()[i].assume_init_mut() } }
    #[inline(always)] unsafe fn vread(&self, i: usize) -> V { if self.typed() { self.tv()[i].0.take().unwrap_unchecked() } else { self.vals()[i].assume_init_read() } }
    #[inline(always)] fn vwrite(&self, i: usize, v: V) { if self.typed() { core::mem::forget(core::mem::replace(&mut self.tv()[i].0, Some(v))); } else { self.vals()[i] = MaybeUninit::new(v); } }
    /// keep the value cells in caller-owned, typed stack memory; call before anything is inserted
    pub fn vk_use_value_storage(&self, p: *mut [VCell<V>; CAP]) { self.tvals.set(p); }
}

impl<K: Eq + Hash, V, S> DashMap<K, V, S> {
    fn raw() -> Self {
        DashMap {
            used: Box::into_raw(Box::new([0u64; CAP])),
            keys: Box::into_raw(Box::<[MaybeUninit<K>; CAP]>::new_uninit()) as *mut [MaybeUninit<K>; CAP],
            vals: Box::into_raw(Box::<[MaybeUninit<V>; CAP]>::new_uninit()) as *mut [MaybeUninit<V>; CAP],
            tvals: core::cell::Cell::new(core::ptr::null_mut()),
            lockp: vs::new_lock_word(),
            lookupsp: Box::into_raw(Box::new(0u64)),
            _s: PhantomData,
        }
    }

    /// fixed-length scan, no early exit (keeps the symbolic execution branch-free)
    #[inline(always)]
    fn find<Q>(&self, key: &Q) -> usize where K: Borrow<Q>, Q: Eq + ?Sized {
        unsafe { *self.lookupsp += 1; }
        let (used, keys) = (self.used(), self.keys());
        let mut idx = CAP;
        let mut i = 0;
        while i < CAP {
            if idx == CAP && used[i] != 0 && unsafe { keys[i].assume_init_ref() }.borrow() == key { idx = i; }
            i += 1;
        }
        idx
    }
    #[inline(always)]
    fn free_slot(&self) -> usize {
        let used = self.used();
        let mut idx = CAP;
        let mut i = 0;
        while i < CAP { if idx == CAP && used[i] == 0 { idx = i; } i += 1; }
        idx
    }

    // ---- verification-only accessors (used by harness support code)
    pub fn vk_set_class(&self, class: u8) { self.lk().class = class; }
    pub fn vk_lookups(&self) -> u32 { unsafe { *self.lookupsp as u32 } }
    pub fn vk_len(&self) -> usize { let used = self.used(); let mut n = 0; let mut i = 0; while i < CAP { if used[i] != 0 { n += 1; } i += 1; } n }
    pub fn vk_slot(&self, i: usize) -> Option<(&K, &V)> {
        if i < CAP && self.used()[i] != 0 { Some(unsafe { (self.keys()[i].assume_init_ref(), self.vref(i)) }) } else { None }
    }
    /// place an entry in a given slot without taking locks or schedule points (state construction)
    pub fn vk_place(&self, i: usize, k: K, v: V) {
        self.used()[i] = 1;
        self.keys()[i] = MaybeUninit::new(k);
        self.vwrite(i, v);
    }
    pub fn vk_peek<Q>(&self, key: &Q) -> Option<&V> where K: Borrow<Q>, Q: Eq + ?Sized {
        let (used, keys) = (self.used(), self.keys());
        let mut r = None;
        let mut i = 0;
        while i < CAP {
            if r.is_none() && used[i] != 0 && unsafe { keys[i].assume_init_ref() }.borrow() == key { r = Some(unsafe { self.vref(i) }); }
            i += 1;
        }
        r
    }
    pub fn vk_locked(&self) -> bool { let l = self.lk(); l.writer != 0 || l.readers.iter().any(|r| *r > 0) }

    // ---- the modelled API
    pub fn insert(&self, key: K, value: V) -> Option<V> {
        vs::schedule_point(vs::S_MAP_OP);
        vs::acquire_exclusive(self.lk());
        let idx = self.find(&key);
        let old = if idx < CAP {
            let old = unsafe { self.vread(idx) };
            self.vwrite(idx, value);
            core::mem::forget(key);
            Some(old)
        } else {
            let f = self.free_slot();
            if f >= CAP { vs::out_of_bound(); }
            let f = if f >= CAP { 0 } else { f };
            self.used()[f] = 1;
            self.keys()[f] = MaybeUninit::new(key);
            self.vwrite(f, value);
            None
        };
        vs::release_exclusive(self.lk());
        old
    }

    pub fn remove<Q>(&self, key: &Q) -> Option<(K, V)> where K: Borrow<Q>, Q: Hash + Eq + ?Sized {
        vs::schedule_point(vs::S_MAP_OP);
        vs::acquire_exclusive(self.lk());
        let idx = self.find(key);
        let r = if idx < CAP {
            self.used()[idx] = 0;
            Some(unsafe { (self.keys()[idx].assume_init_read(), self.vread(idx)) })
        } else { None };
        vs::release_exclusive(self.lk());
        r
    }

    pub fn remove_if<Q>(&self, key: &Q, f: impl FnOnce(&K, &V) -> bool) -> Option<(K, V)> where K: Borrow<Q>, Q: Hash + Eq + ?Sized {
        vs::schedule_point(vs::S_MAP_OP);
        vs::acquire_exclusive(self.lk());
        let idx = self.find(key);
        let r = if idx < CAP && f(unsafe { self.keys()[idx].assume_init_ref() }, unsafe { self.vref(idx) }) {
            self.used()[idx] = 0;
            Some(unsafe { (self.keys()[idx].assume_init_read(), self.vread(idx)) })
        } else { None };
        vs::release_exclusive(self.lk());
        r
    }

    pub fn retain(&self, mut f: impl FnMut(&K, &mut V) -> bool) {
        vs::schedule_point(vs::S_MAP_OP);
        vs::acquire_exclusive(self.lk());
        let mut i = 0;
        while i < CAP {
            if self.used()[i] != 0 && !f(unsafe { self.keys()[i].assume_init_ref() }, unsafe { self.vmut(i) }) { self.used()[i] = 0; }
            i += 1;
        }
        vs::release_exclusive(self.lk());
    }

    pub fn contains_key<Q>(&self, key: &Q) -> bool where K: Borrow<Q>, Q: Hash + Eq + ?Sized {
        vs::schedule_point(vs::S_MAP_OP);
        vs::acquire_shared(self.lk(), false);
        let r = self.find(key) < CAP;
        vs::release_shared(self.lk());
        r
    }

    pub fn get<Q>(&self, key: &Q) -> Option<mapref::one::Ref<'_, K, V, S>> where K: Borrow<Q>, Q: Hash + Eq + ?Sized {
        vs::schedule_point(vs::S_MAP_OP);
        vs::acquire_shared(self.lk(), false);
        let idx = self.find(key);
        if idx < CAP {
            Some(mapref::one::Ref { map: self, idx })
        } else {
            vs::release_shared(self.lk());
            None
        }
    }

    pub fn get_mut<Q>(&self, key: &Q) -> Option<mapref::one::RefMut<'_, K, V, S>> where K: Borrow<Q>, Q: Hash + Eq + ?Sized {
        vs::schedule_point(vs::S_MAP_OP);
        vs::acquire_exclusive(self.lk());
        let idx = self.find(key);
        if idx < CAP {
            Some(mapref::one::RefMut { map: self, idx })
        } else {
            vs::release_exclusive(self.lk());
            None
        }
    }

    /// non-blocking variants: `Locked` when another logical thread holds a conflicting guard
    pub fn try_get<Q>(&self, key: &Q) -> try_result::TryResult<mapref::one::Ref<'_, K, V, S>> where K: Borrow<Q>, Q: Hash + Eq + ?Sized {
        vs::schedule_point(vs::S_MAP_OP);
        if self.lk().writer != 0 { return try_result::TryResult::Locked; }
        vs::acquire_shared(self.lk(), true);
        let idx = self.find(key);
        if idx < CAP { try_result::TryResult::Present(mapref::one::Ref { map: self, idx }) }
        else { vs::release_shared(self.lk()); try_result::TryResult::Absent }
    }
    pub fn try_get_mut<Q>(&self, key: &Q) -> try_result::TryResult<mapref::one::RefMut<'_, K, V, S>> where K: Borrow<Q>, Q: Hash + Eq + ?Sized {
        vs::schedule_point(vs::S_MAP_OP);
        if self.vk_locked() { return try_result::TryResult::Locked; }
        vs::acquire_exclusive(self.lk());
        let idx = self.find(key);
        if idx < CAP { try_result::TryResult::Present(mapref::one::RefMut { map: self, idx }) }
        else { vs::release_exclusive(self.lk()); try_result::TryResult::Absent }
    }

    /// entry API (subset): the returned entry holds the shard's write lock
    pub fn entry(&self, key: K) -> mapref::entry::Entry<'_, K, V, S> {
        vs::schedule_point(vs::S_MAP_OP);
        vs::acquire_exclusive(self.lk());
        let idx = self.find(&key);
        if idx < CAP { core::mem::forget(key); mapref::entry::Entry::Occupied(mapref::entry::OccupiedEntry { map: self, idx }) }
        else { mapref::entry::Entry::Vacant(mapref::entry::VacantEntry { map: self, key }) }
    }

    pub fn clear(&self) {
        vs::schedule_point(vs::S_MAP_OP);
        vs::acquire_exclusive(self.lk());
        let used = self.used();
        let mut i = 0;
        while i < CAP { used[i] = 0; i += 1; }
        vs::release_exclusive(self.lk());
    }

    pub fn len(&self) -> usize { self.vk_len() }
    pub fn is_empty(&self) -> bool { self.vk_len() == 0 }

    pub fn iter(&self) -> iter::Iter<'_, K, V, S> {
        vs::schedule_point(vs::S_MAP_OP);
        vs::acquire_shared(self.lk(), false);
        iter::Iter { map: self, next: 0 }
    }
}

pub mod try_result {
    pub enum TryResult<R> { Present(R), Absent, Locked }
    impl<R> TryResult<R> {
        pub fn is_present(&self) -> bool { matches!(self, TryResult::Present(_)) }
        pub fn is_absent(&self) -> bool { matches!(self, TryResult::Absent) }
        pub fn is_locked(&self) -> bool { matches!(self, TryResult::Locked) }
        pub fn unwrap(self) -> R { match self { TryResult::Present(r) => r, _ => panic!("TryResult::unwrap on Absent/Locked") } }
        pub fn try_unwrap(self) -> Option<R> { match self { TryResult::Present(r) => Some(r), _ => None } }
    }
}

pub mod mapref {
    pub mod entry {
        use super::super::*;
        use super::one::RefMut;
        pub enum Entry<'a, K, V, S = RandomState> { Occupied(OccupiedEntry<'a, K, V, S>), Vacant(VacantEntry<'a, K, V, S>) }
        pub struct OccupiedEntry<'a, K, V, S = RandomState> { pub(crate) map: &'a DashMap<K, V, S>, pub(crate) idx: usize }
        pub struct VacantEntry<'a, K, V, S = RandomState> { pub(crate) map: &'a DashMap<K, V, S>, pub(crate) key: K }
        impl<'a, K: Eq + Hash, V, S> VacantEntry<'a, K, V, S> {
            pub fn insert(self, value: V) -> RefMut<'a, K, V, S> {
                let f = self.map.free_slot();
                if f >= CAP { vs::out_of_bound(); }
                let f = if f >= CAP { 0 } else { f };
                self.map.used()[f] = 1;
                self.map.keys()[f] = MaybeUninit::new(self.key);
                self.map.vwrite(f, value);
                RefMut { map: self.map, idx: f }
            }
        }
        impl<'a, K: Eq + Hash, V, S> OccupiedEntry<'a, K, V, S> {
            pub fn into_ref(self) -> RefMut<'a, K, V, S> { RefMut { map: self.map, idx: self.idx } }
            pub fn get(&self) -> &V { unsafe { self.map.vref(self.idx) } }
            pub fn insert(&mut self, value: V) -> V { core::mem::replace(unsafe { self.map.vmut(self.idx) }, value) }
        }
        impl<'a, K: Eq + Hash, V, S> Entry<'a, K, V, S> {
            pub fn or_insert(self, value: V) -> RefMut<'a, K, V, S> { match self { Entry::Occupied(o) => o.into_ref(), Entry::Vacant(v) => v.insert(value) } }
            pub fn or_insert_with(self, f: impl FnOnce() -> V) -> RefMut<'a, K, V, S> { match self { Entry::Occupied(o) => o.into_ref(), Entry::Vacant(v) => v.insert(f()) } }
            pub fn or_default(self) -> RefMut<'a, K, V, S> where V: Default { self.or_insert_with(V::default) }
            pub fn and_modify(self, f: impl FnOnce(&mut V)) -> Self {
                if let Entry::Occupied(o) = &self { f(unsafe { o.map.vmut(o.idx) }); }
                self
            }
        }
    }
    pub mod one {
        use super::super::*;
        pub struct Ref<'a, K, V, S = RandomState> { pub(crate) map: &'a DashMap<K, V, S>, pub(crate) idx: usize }
        impl<'a, K: Eq + Hash, V, S> Ref<'a, K, V, S> {
            pub fn key(&self) -> &K { unsafe { (*self.map.keys)[self.idx].assume_init_ref() } }
            pub fn value(&self) -> &V { unsafe { self.map.vref(self.idx) } }
            pub fn pair(&self) -> (&K, &V) { (self.key(), self.value()) }
        }
        impl<'a, K: Eq + Hash, V, S> Deref for Ref<'a, K, V, S> { type Target = V; fn deref(&self) -> &V { self.value() } }
        impl<'a, K, V, S> Drop for Ref<'a, K, V, S> {
            fn drop(&mut self) { vs::schedule_point(vs::S_LOCK_REL); vs::release_shared(unsafe { &mut *self.map.lockp }); }
        }
        pub struct RefMut<'a, K, V, S = RandomState> { pub(crate) map: &'a DashMap<K, V, S>, pub(crate) idx: usize }
        impl<'a, K: Eq + Hash, V, S> RefMut<'a, K, V, S> {
            pub fn key(&self) -> &K { unsafe { (*self.map.keys)[self.idx].assume_init_ref() } }
            pub fn value(&self) -> &V { unsafe { self.map.vref(self.idx) } }
            pub fn value_mut(&mut self) -> &mut V { unsafe { self.map.vmut(self.idx) } }
            pub fn pair(&self) -> (&K, &V) { (self.key(), self.value()) }
        }
        impl<'a, K: Eq + Hash, V, S> Deref for RefMut<'a, K, V, S> { type Target = V; fn deref(&self) -> &V { self.value() } }
        impl<'a, K: Eq + Hash, V, S> DerefMut for RefMut<'a, K, V, S> { fn deref_mut(&mut self) -> &mut V { self.value_mut() } }
        impl<'a, K, V, S> Drop for RefMut<'a, K, V, S> {
            fn drop(&mut self) { vs::schedule_point(vs::S_LOCK_REL); vs::release_exclusive(unsafe { &mut *self.map.lockp }); }
        }
    }
    pub mod multiple {
        use super::super::*;
        /// shares the iterator's shard guard (the real one clones an `Arc` of it)
        pub struct RefMulti<'a, K, V, S = RandomState> { pub(crate) map: &'a DashMap<K, V, S>, pub(crate) idx: usize }
        impl<'a, K: Eq + Hash, V, S> RefMulti<'a, K, V, S> {
            pub fn key(&self) -> &K { unsafe { (*self.map.keys)[self.idx].assume_init_ref() } }
            pub fn value(&self) -> &V { unsafe { self.map.vref(self.idx) } }
            pub fn pair(&self) -> (&K, &V) { (self.key(), self.value()) }
        }
        impl<'a, K: Eq + Hash, V, S> Deref for RefMulti<'a, K, V, S> { type Target = V; fn deref(&self) -> &V { self.value() } }
        impl<'a, K, V, S> Drop for RefMulti<'a, K, V, S> {
            fn drop(&mut self) { vs::release_shared(unsafe { &mut *self.map.lockp }); }
        }
    }
}

pub mod iter {
    use super::*;
    pub struct Iter<'a, K, V, S = RandomState> { pub(crate) map: &'a DashMap<K, V, S>, pub(crate) next: usize }
    impl<'a, K: Eq + Hash, V, S> Iterator for Iter<'a, K, V, S> {
        type Item = mapref::multiple::RefMulti<'a, K, V, S>;
        fn next(&mut self) -> Option<Self::Item> {
            let used = unsafe { &*self.map.used };
            // first used slot at or after `next`, fixed-length scan
            let mut found = CAP;
            let mut i = 0;
            while i < CAP { if found == CAP && i >= self.next && used[i] != 0 { found = i; } i += 1; }
            if found < CAP {
                self.next = found + 1;
                // the RefMulti shares the shard guard: one more shared hold by this thread
                vs::acquire_shared(unsafe { &mut *self.map.lockp }, true);
                Some(mapref::multiple::RefMulti { map: self.map, idx: found })
            } else {
                self.next = CAP;
                None
            }
        }
    }
    impl<'a, K, V, S> Drop for Iter<'a, K, V, S> {
        fn drop(&mut self) { vs::release_shared(unsafe { &mut *self.map.lockp }); }
    }
}
