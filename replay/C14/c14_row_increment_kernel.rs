// Concrete counterexample for property C14, harness cache::lfu::frequency_counter::verif_kani::c14_row_increment_kernel
// failed check(s): "C14: increment adds exactly one below saturation"
// native replay against the staged real code: dev=REPRODUCED release=not reproduced
// (values are the solver's assignment to every kani::any() of the harness, in order)
#[test]
fn kani_concrete_playback_c14_row_increment_kernel_1955256126938819786() {
    let concrete_vals: Vec<Vec<u8>> = vec![
        // 142
        vec![142],
        // 142
        vec![142],
        // 2ul
        vec![2, 0, 0, 0, 0, 0, 0, 0],
    ];
    kani::concrete_playback_run(concrete_vals, c14_row_increment_kernel);
}
// thread 'cache::lfu::frequency_counter::verif_kani::kani_concrete_playback_c14_row_increment_kernel_1955256126938819786' (31687) panicked at /var/tmp/cached-vk/C14-30928/vk_harness/frequency_counter.rs:27:27:
