// Concrete counterexample for property C14, harness cache::lfu::frequency_counter::verif_kani::c14_new_sized_for_every_index
// failed check(s): index out of bounds: the length is less than or equal to the given index
// native replay against the staged real code: dev=REPRODUCED release=not reproduced
// (values are the solver's assignment to every kani::any() of the harness, in order)
#[test]
fn kani_concrete_playback_c14_new_sized_for_every_index_1469646631996455367() {
    let concrete_vals: Vec<Vec<u8>> = vec![
        // 1ul
        vec![1, 0, 0, 0, 0, 0, 0, 0],
        // 18446744073709551607ul
        vec![247, 255, 255, 255, 255, 255, 255, 255],
        // 18446744073709551615ul
        vec![255, 255, 255, 255, 255, 255, 255, 255],
        // 18446744073709551567ul
        vec![207, 255, 255, 255, 255, 255, 255, 255],
        // 18446744073709551615ul
        vec![255, 255, 255, 255, 255, 255, 255, 255],
        // 18446744073709551615ul
        vec![255, 255, 255, 255, 255, 255, 255, 255],
    ];
    kani::concrete_playback_run(concrete_vals, c14_new_sized_for_every_index);
}
// thread 'cache::lfu::frequency_counter::verif_kani::kani_concrete_playback_c14_new_sized_for_every_index_1469646631996455367' (847) panicked at src/cache/lfu/frequency_counter.rs:40:16:
