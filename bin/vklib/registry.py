"""Registry of harnesses: which property each serves, tier, per-harness time cap, what it encodes."""
from .stage import HARNESS_FILES

# harness file -> rust module path of the instrumented source file
MODULE_OF = {}
for rel, hf in HARNESS_FILES.items():
    parts = rel[:-3].split("/")
    if parts[-1] == "mod":
        parts = parts[:-1]
    MODULE_OF[hf] = "cache::" + "::".join(parts)

FC = "tinylfu_cached::cache::lfu::frequency_counter::"

HARNESSES = [
    # ---------------------------------------------------------------- C14 sketch
    dict(name="c14_row_increment_kernel", file="frequency_counter.rs", props=["C14", "C17"], timeout=120,
         encodes=[FC + "Row::increment_at", FC + "Row::get_at"]),
    dict(name="c14_row_half_and_clear_kernel", file="frequency_counter.rs", props=["C14"], timeout=120,
         encodes=[FC + "Row::half_counters", FC + "Row::clear", FC + "Row::get_at"]),
    dict(name="c14_next_power_2_kernel", file="frequency_counter.rs", props=["C14", "C17"], timeout=120,
         encodes=[FC + "FrequencyCounter::next_power_2"]),
    dict(name="c14_sketch_increment_monotone_w4", file="frequency_counter.rs", props=["C14"], timeout=300,
         encodes=[FC + "FrequencyCounter::increment", FC + "FrequencyCounter::estimate"]),
    dict(name="c14_sketch_reset_halves_w4", file="frequency_counter.rs", props=["C14"], timeout=300,
         encodes=[FC + "FrequencyCounter::reset", FC + "FrequencyCounter::clear", FC + "FrequencyCounter::estimate"]),
    dict(name="c14_new_sized_for_every_index", file="frequency_counter.rs", props=["C14", "C17"], timeout=300,
         encodes=[FC + "FrequencyCounter::new", FC + "FrequencyCounter::matrix", FC + "FrequencyCounter::seeds",
                  FC + "FrequencyCounter::increment", FC + "FrequencyCounter::estimate"]),
    dict(name="c14_doorkeeper_step", file="doorkeeper.rs", props=["C14"], timeout=120,
         encodes=["tinylfu_cached::cache::lfu::doorkeeper::DoorKeeper::{new,add_if_missing,has,clear}"]),
    dict(name="c14_tinylfu_one_access_step", file="tiny_lfu.rs", props=["C14"], timeout=300,
         encodes=["tinylfu_cached::cache::lfu::tiny_lfu::TinyLFU::{increment_access_for,estimate,reset}", FC + "FrequencyCounter::{increment,estimate,reset}"]),
    dict(name="c14_tinylfu_never_undercounts_in_window", file="tiny_lfu.rs", props=["C14"], timeout=300,
         encodes=["tinylfu_cached::cache::lfu::tiny_lfu::TinyLFU::{increment_access_for,estimate}"]),
    dict(name="c14_tinylfu_new", file="tiny_lfu.rs", props=["C14", "C17"], timeout=300,
         encodes=["tinylfu_cached::cache::lfu::tiny_lfu::TinyLFU::new"]),
    dict(name="c14_tinylfu_clear", file="tiny_lfu.rs", props=["C14"], timeout=300,
         encodes=["tinylfu_cached::cache::lfu::tiny_lfu::TinyLFU::clear"]),
    # ---------------------------------------------------------------- C16 stats
    dict(name="c16_hit_ratio_kernel", file="stats.rs", props=["C16"], timeout=300, encodes=["tinylfu_cached::cache::stats::ConcurrentStatsCounter::hit_ratio"]),
    dict(name="c16_counters_frame", file="stats.rs", props=["C16"], timeout=300, encodes=["tinylfu_cached::cache::stats::ConcurrentStatsCounter::{add,get,clear,found_a_hit,found_a_miss,add_key,delete_key,update_key,reject_key,add_weight,remove_weight,add_access,drop_access}"]),
    dict(name="c16_new_starts_at_zero", file="stats.rs", props=["C16"], timeout=300, encodes=["tinylfu_cached::cache::stats::ConcurrentStatsCounter::new"]),
    dict(name="c16_summary_reports_each_counter", file="stats.rs", props=["C16"], timeout=300, encodes=["tinylfu_cached::cache::stats::ConcurrentStatsCounter::summary", "tinylfu_cached::cache::stats::StatsSummary::get"]),
    # ---------------------------------------------------------------- C09 expiry
    dict(name="c09_put_then_look", file="stored_value.rs", props=["C09"], timeout=300,
         encodes=["tinylfu_cached::cache::store::stored_value::StoredValue::{expiring,never_expiring,is_alive,calculate_expiry,expire_after}", "tinylfu_cached::cache::clock::Clock::has_passed"]),
    dict(name="c09_ttl_change_then_look", file="stored_value.rs", props=["C09", "C08"], timeout=300,
         encodes=["tinylfu_cached::cache::store::stored_value::StoredValue::{expiring,never_expiring,is_alive,update,calculate_expiry,expire_after}", "tinylfu_cached::cache::clock::Clock::has_passed"]),
    dict(name="c09_clock_has_passed_kernel", file="stored_value.rs", props=["C09"], timeout=120, encodes=["tinylfu_cached::cache::clock::Clock::has_passed"]),
    # ---------------------------------------------------------------- C12 acknowledgement
    dict(name="c12_done_races_poll", file="acknowledgement.rs", props=["C12", "C18"], timeout=300,
         encodes=["tinylfu_cached::cache::command::acknowledgement::CommandAcknowledgementHandle::{done,poll}", "CommandAcknowledgement::new"]),
    dict(name="c12_poll_races_done", file="acknowledgement.rs", props=["C12", "C18"], timeout=300,
         encodes=["tinylfu_cached::cache::command::acknowledgement::CommandAcknowledgementHandle::{done,poll}"]),
    dict(name="c12_preresolved", file="acknowledgement.rs", props=["C12"], timeout=120,
         encodes=["tinylfu_cached::cache::command::acknowledgement::CommandAcknowledgement::{accepted,rejected}"]),
    # ---------------------------------------------------------------- cache weight (C01/C05/C16) and sampler (C06)
    dict(name="c05_cache_weight_step", file="cache_weight.rs", props=["C05", "C01", "C16", "C03"], timeout=400,
         encodes=["tinylfu_cached::cache::policy::cache_weight::CacheWeight::{is_space_available_for,add,update,delete,clear,contains,weight_of,update_weight_stats}"]),
    dict(name="c06_sampled_key_order_kernel", file="cache_weight.rs", props=["C06"], timeout=120,
         encodes=["tinylfu_cached::cache::policy::cache_weight::SampledKey::{cmp,partial_cmp,eq}"]),
    dict(name="c06_sampler_pop_and_refill", file="cache_weight.rs", props=["C06"], timeout=600,
         encodes=["tinylfu_cached::cache::policy::cache_weight::FrequencyCounterBasedMinHeapSamples::{new,initial_sample,min_frequency_key,maybe_fill_in,size}", "CacheWeight::{sample,delete}"]),
    dict(name="c06_sampler_victim_order", file="cache_weight.rs", props=["C06"], timeout=600,
         encodes=["tinylfu_cached::cache::policy::cache_weight::FrequencyCounterBasedMinHeapSamples::{new,initial_sample,min_frequency_key}", "SampledKey::cmp"]),
    # ---------------------------------------------------------------- store (C02, C09, C04, C07, C08)
    dict(name="c02_store_reads_agree_with_abstract_map", file="store.rs", props=["C02", "C09", "C16", "C07"], timeout=600,
         encodes=["tinylfu_cached::cache::store::Store::{get,get_ref,contains,is_present}", "StoredValue::is_alive", "KeyValueRef::{key,value}"]),
    dict(name="c02_store_write_step", file="store.rs", props=["C02", "C04", "C08", "C16", "C03"], timeout=600,
         encodes=["tinylfu_cached::cache::store::Store::{put,put_with_ttl,delete,mark_deleted,update,clear}", "UpdateResponse::{did_update_happen,existing_expiry,new_expiry,value,key_id_or_panic}"]),
    # ---------------------------------------------------------------- admission (C06, C01, C03)
    dict(name="c06_maybe_add_rule_1_resident", file="admission_policy.rs", props=["C06", "C01", "C03", "C05"], timeout=1200, tier="quick",
         encodes=["tinylfu_cached::cache::policy::admission_policy::AdmissionPolicy::{maybe_add,create_space,estimate}", "CacheWeight::{is_space_available_for,add,delete,sample}",
                  "FrequencyCounterBasedMinHeapSamples::{new,initial_sample,min_frequency_key,maybe_fill_in}", "TinyLFU::estimate", "FrequencyCounter::estimate", "DoorKeeper::has"]),
    dict(name="c06_maybe_add_rule_2_residents", file="admission_policy.rs", props=["C06", "C01", "C03", "C05"], timeout=1200, tier="quick",
         encodes=["tinylfu_cached::cache::policy::admission_policy::AdmissionPolicy::{maybe_add,create_space,estimate}", "CacheWeight::{is_space_available_for,add,delete,sample}",
                  "FrequencyCounterBasedMinHeapSamples::{new,initial_sample,min_frequency_key,maybe_fill_in}", "TinyLFU::estimate", "FrequencyCounter::estimate", "DoorKeeper::has"]),
    dict(name="c06_maybe_add_rule_3_residents", file="admission_policy.rs", props=["C06", "C01", "C03", "C05"], timeout=1200, tier="quick",
         encodes=["tinylfu_cached::cache::policy::admission_policy::AdmissionPolicy::{maybe_add,create_space,estimate}", "CacheWeight::{is_space_available_for,add,delete,sample}",
                  "FrequencyCounterBasedMinHeapSamples::{new,initial_sample,min_frequency_key,maybe_fill_in}", "TinyLFU::estimate", "FrequencyCounter::estimate", "DoorKeeper::has"]),
    dict(name="c06_maybe_add_rule_any_residents", file="admission_policy.rs", props=["C06", "C01", "C03", "C05"], timeout=1200, tier="thorough",
         encodes=["tinylfu_cached::cache::policy::admission_policy::AdmissionPolicy::{maybe_add,create_space,estimate}", "CacheWeight::{is_space_available_for,add,delete,sample}",
                  "FrequencyCounterBasedMinHeapSamples::{new,initial_sample,min_frequency_key,maybe_fill_in}", "TinyLFU::estimate", "FrequencyCounter::estimate", "DoorKeeper::has"]),
    # ---------------------------------------------------------------- whole CacheD: reads (C02)
    dict(name="c02_all_read_variants_agree", file="cached.rs", props=["C02", "C09", "C16", "C15"], timeout=900,
         encodes=["tinylfu_cached::cache::cached::CacheD::{get,get_ref,map_get,map_get_ref,multi_get,multi_get_iterator,multi_get_map_iterator,mark_key_accessed,is_shutting_down}",
                  "MultiGetIterator::next", "MultiGetMapIterator::next", "Store::{get,get_ref}", "Pool::add"]),
    dict(name="c02_multi_key_reads", file="cached.rs", props=["C02"], timeout=900,
         encodes=["tinylfu_cached::cache::cached::CacheD::{multi_get,multi_get_iterator,multi_get_map_iterator}", "MultiGetIterator::next", "MultiGetMapIterator::next"]),
    dict(name="c07_put_client_step", file="cached.rs", props=["C07", "C05", "C11", "C17"], timeout=900,
         encodes=["tinylfu_cached::cache::cached::CacheD::{put,put_with_weight,put_with_ttl,put_with_weight_and_ttl,key_description}", "Store::is_present", "CommandExecutor::send", "Calculation::perform", "CommandAcknowledgement::{new,rejected}"]),
    dict(name="c04_delete_hides_then_releases", file="cached.rs", props=["C04", "C05", "C16", "C11", "C12"], timeout=900,
         encodes=["tinylfu_cached::cache::cached::CacheD::{delete,get,get_ref,put_with_weight,total_weight_used}", "Store::{mark_deleted,delete}", "CommandExecutor::{send,spin (worker closure),delete}", "AdmissionPolicy::delete", "CacheWeight::delete", "TTLTicker::delete", "CommandAcknowledgementHandle::{done,poll}"]),
    dict(name="c08_put_or_update_step", file="cached.rs", props=["C08", "C10", "C05", "C17"], timeout=1500,
         encodes=["tinylfu_cached::cache::cached::CacheD::{put_or_update,get,key_description}", "PutOrUpdateRequest::updated_weight", "Store::update", "StoredValue::update", "UpdateResponse::type_of_expiry_update", "TTLTicker::{put,update,delete}", "AdmissionPolicy::{weight_of,update}", "CacheWeight::update", "CommandExecutor::{send,spin (worker closure: UpdateWeight arm)}"]),
    dict(name="c05_worker_put_step", file="cached.rs", props=["C05", "C03", "C01", "C16", "C10", "C11"], timeout=1800,
         encodes=["tinylfu_cached::cache::command::command_executor::CommandExecutor::{spin (worker closure: Put, PutWithTTL arms),put,put_with_ttl,send}", "AdmissionPolicy::{maybe_add,create_space}", "Store::{put,put_with_ttl,delete (as eviction hook)}", "TTLTicker::put", "CommandAcknowledgementHandle::done"]),
]

PROPERTY_NOTES = {
    "C14": dict(
        bounds="kernels: all 2^16 contents of a 2-byte row x 4 positions; next_power_2: all counters in 1..=2^63 (full width); "
               "stateful sketch harnesses: width 4 (2 bytes/row) with arbitrary contents, arbitrary 64-bit seeds and hashes; "
               "constructor: counters 1..=9; unwind per harness 5..11 with unwinding assertions",
        outside="sketch widths above 16 for the stateful harnesses; false-positive rate of the real bloom filter; allocation failure for huge counters",
        explanation="one-step inductive obligations over arbitrary sketch contents: increment raises the addressed estimate by one unless saturated and never lowers any other; "
                    "ageing halves every counter; TinyLFU resets exactly at the configured threshold",
        assumptions=["rand model: seeds are arbitrary 64-bit values", "bloomfilter model: no false negatives, false positives arbitrary but stable until clear"],
    ),
}

GENERIC_NOTE = ("Trusted: Kani/CBMC/CaDiCaL; the verification models of dashmap, parking_lot, crossbeam-channel, hashbrown, bloomfilter, rand "
                "(documented contracts, listed in evidence); rustc MIR -> goto translation; Key=Value=u64 instantiation; sequential consistency. "
                "Bounded: holds for every value inside the stated bounds, says nothing outside them.")

MANIFEST_TEXT = {
    "C14": dict(
        level="Bounded model checking of the real sketch code: packed-counter kernels over all byte values and positions, sizing over all counters 1..=2^63, "
              "one-step inductive obligations (increment/estimate/reset/clear) from arbitrary sketch contents, seeds and hashes at width 4, constructor for counters 1..=9, "
              "and the TinyLFU window/threshold logic with a solver-chosen doorkeeper. Universally quantified inputs are exactly what unit tests cannot sample.",
        note=GENERIC_NOTE),
}
NOT_APPLICABLE = {}
