"""Registry of harnesses: which property each serves, tier, per-harness time cap, what it encodes."""
from .stage import HARNESS_FILES

# harness file -> rust module path of the instrumented source file
MODULE_OF = {}
for rel, hf in HARNESS_FILES.items():
    parts = rel[:-3].split("/")
    if parts[-1] == "mod":
        parts = parts[:-1]
    MODULE_OF[hf] = "cache::" + "::".join(parts)

FC = "tinylfu_cached::cache::lfu::frequency_counter::"

HARNESSES = [
    # ---------------------------------------------------------------- C14 sketch
    dict(name="c14_row_increment_kernel", tier="quick", file="frequency_counter.rs", props=["C14", "C17"], timeout=120,
         encodes=[FC + "Row::increment_at", FC + "Row::get_at"]),
    dict(name="c14_row_half_and_clear_kernel", tier="quick", file="frequency_counter.rs", props=["C14"], timeout=120,
         encodes=[FC + "Row::half_counters", FC + "Row::clear", FC + "Row::get_at"]),
    dict(name="c14_next_power_2_kernel", tier="quick", file="frequency_counter.rs", props=["C14", "C17"], timeout=120,
         encodes=[FC + "FrequencyCounter::next_power_2"]),
    dict(name="c14_sketch_increment_monotone_w4", tier="quick", file="frequency_counter.rs", props=["C14"], timeout=300,
         encodes=[FC + "FrequencyCounter::increment", FC + "FrequencyCounter::estimate"]),
    dict(name="c14_sketch_reset_halves_w4", tier="quick", file="frequency_counter.rs", props=["C14"], timeout=300,
         encodes=[FC + "FrequencyCounter::reset", FC + "FrequencyCounter::clear", FC + "FrequencyCounter::estimate"]),
    dict(name="c14_new_sized_for_every_index", tier="quick", file="frequency_counter.rs", props=["C14", "C17"], timeout=300,
         encodes=[FC + "FrequencyCounter::new", FC + "FrequencyCounter::matrix", FC + "FrequencyCounter::seeds",
                  FC + "FrequencyCounter::increment", FC + "FrequencyCounter::estimate"]),
    dict(name="c14_doorkeeper_step", tier="quick", file="doorkeeper.rs", props=["C14"], timeout=120,
         encodes=["tinylfu_cached::cache::lfu::doorkeeper::DoorKeeper::{new,add_if_missing,has,clear}"]),
    dict(name="c14_tinylfu_one_access_step", tier="quick", file="tiny_lfu.rs", props=["C14"], timeout=300,
         encodes=["tinylfu_cached::cache::lfu::tiny_lfu::TinyLFU::{increment_access_for,estimate,reset}", FC + "FrequencyCounter::{increment,estimate,reset}"]),
    dict(name="c14_tinylfu_never_undercounts_in_window", tier="quick", file="tiny_lfu.rs", props=["C14"], timeout=300,
         encodes=["tinylfu_cached::cache::lfu::tiny_lfu::TinyLFU::{increment_access_for,estimate}"]),
    dict(name="c14_tinylfu_new", tier="quick", file="tiny_lfu.rs", props=["C14", "C17"], timeout=300,
         encodes=["tinylfu_cached::cache::lfu::tiny_lfu::TinyLFU::new"]),
    dict(name="c14_tinylfu_clear", tier="quick", file="tiny_lfu.rs", props=["C14"], timeout=300,
         encodes=["tinylfu_cached::cache::lfu::tiny_lfu::TinyLFU::clear"]),
    # ---------------------------------------------------------------- C16 stats
    dict(name="c16_hit_ratio_kernel", tier="quick", file="stats.rs", props=["C16"], timeout=300, encodes=["tinylfu_cached::cache::stats::ConcurrentStatsCounter::hit_ratio"]),
    dict(name="c16_counters_frame", tier="quick", file="stats.rs", props=["C16"], timeout=300, encodes=["tinylfu_cached::cache::stats::ConcurrentStatsCounter::{add,get,clear,found_a_hit,found_a_miss,add_key,delete_key,update_key,reject_key,add_weight,remove_weight,add_access,drop_access}"]),
    dict(name="c16_new_starts_at_zero", tier="quick", file="stats.rs", props=["C16"], timeout=300, encodes=["tinylfu_cached::cache::stats::ConcurrentStatsCounter::new"]),
    dict(name="c16_summary_reports_each_counter", tier="quick", file="stats.rs", props=["C16"], timeout=300, encodes=["tinylfu_cached::cache::stats::ConcurrentStatsCounter::summary", "tinylfu_cached::cache::stats::StatsSummary::get"]),
    # ---------------------------------------------------------------- C09 expiry
    dict(name="c09_put_then_look", tier="quick", file="stored_value.rs", props=["C09"], timeout=300,
         encodes=["tinylfu_cached::cache::store::stored_value::StoredValue::{expiring,never_expiring,is_alive,calculate_expiry,expire_after}", "tinylfu_cached::cache::clock::Clock::has_passed"]),
    dict(name="c09_ttl_change_then_look", tier="quick", file="stored_value.rs", props=["C09", "C08"], timeout=300,
         encodes=["tinylfu_cached::cache::store::stored_value::StoredValue::{expiring,never_expiring,is_alive,update,calculate_expiry,expire_after}", "tinylfu_cached::cache::clock::Clock::has_passed"]),
    dict(name="c09_time_construction_is_faithful", tier="quick", file="stored_value.rs", props=["C09", "C10"], timeout=120, encodes=["harness support: SystemTime construction vs std arithmetic"]),
    dict(name="c09_clock_has_passed_kernel", tier="quick", file="stored_value.rs", props=["C09"], timeout=120, encodes=["tinylfu_cached::cache::clock::Clock::has_passed"]),
    # ---------------------------------------------------------------- C12 acknowledgement
    dict(name="c12_done_races_poll", tier="quick", file="acknowledgement.rs", props=["C12", "C18"], timeout=300,
         encodes=["tinylfu_cached::cache::command::acknowledgement::CommandAcknowledgementHandle::{done,poll}", "CommandAcknowledgement::new"]),
    dict(name="c12_poll_races_done", tier="quick", file="acknowledgement.rs", props=["C12"], timeout=300,
         encodes=["tinylfu_cached::cache::command::acknowledgement::CommandAcknowledgementHandle::{done,poll}"]),
    dict(name="c12_preresolved", tier="quick", file="acknowledgement.rs", props=["C12"], timeout=120,
         encodes=["tinylfu_cached::cache::command::acknowledgement::CommandAcknowledgement::{accepted,rejected}"]),
    # ---------------------------------------------------------------- cache weight (C01/C05/C16) and sampler (C06)
    dict(name="c05_cache_weight_step", tier="quick", file="cache_weight.rs", props=["C05", "C01", "C16", "C03", "C18", "C17"], timeout=400,
         encodes=["tinylfu_cached::cache::policy::cache_weight::CacheWeight::{is_space_available_for,add,update,delete,clear,contains,weight_of,update_weight_stats}"]),
    dict(name="c06_sampled_key_order_kernel", tier="quick", file="cache_weight.rs", props=["C06"], timeout=120,
         encodes=["tinylfu_cached::cache::policy::cache_weight::SampledKey::{cmp,partial_cmp,eq}"]),
    dict(name="c06_sampler_pop_and_refill", tier="quick", file="cache_weight.rs", props=["C06"], timeout=600,
         encodes=["tinylfu_cached::cache::policy::cache_weight::FrequencyCounterBasedMinHeapSamples::{new,initial_sample,min_frequency_key,maybe_fill_in,size}", "CacheWeight::{sample,delete}"]),
    dict(name="c06_sampler_victim_order", tier="quick", file="cache_weight.rs", props=["C06"], timeout=600,
         encodes=["tinylfu_cached::cache::policy::cache_weight::FrequencyCounterBasedMinHeapSamples::{new,initial_sample,min_frequency_key}", "SampledKey::cmp"]),
    # ---------------------------------------------------------------- store (C02, C09, C04, C07, C08)
    dict(name="c02_store_reads_agree_with_abstract_map", tier="quick", file="store.rs", props=["C02", "C09", "C16"], timeout=600,
         encodes=["tinylfu_cached::cache::store::Store::{get,get_ref,contains,is_present}", "StoredValue::is_alive", "KeyValueRef::{key,value}"]),
    dict(name="c04_mark_deleted_while_reader_holds_guard", file="store.rs", props=["C04", "C18"], timeout=600,
         encodes=["tinylfu_cached::cache::store::Store::{get_ref,mark_deleted,get}"]),
    dict(name="c07_existence_check_while_writer_holds_guard", file="store.rs", props=["C07", "C18"], timeout=600,
         encodes=["tinylfu_cached::cache::store::Store::{update,is_present}"]),
    dict(name="c02_store_write_step", tier="quick", file="store.rs", props=["C02", "C03", "C04", "C08"], timeout=600,
         encodes=["tinylfu_cached::cache::store::Store::{put,put_with_ttl,delete,mark_deleted,update,clear}", "UpdateResponse::{did_update_happen,existing_expiry,new_expiry,value,key_id_or_panic}"]),
    # ---------------------------------------------------------------- admission (C06, C01, C03)
    dict(name="c06_maybe_add_rule_1_resident", tier="quick", file="admission_policy.rs", props=["C06", "C01", "C03", "C05"], timeout=1200,
         encodes=["tinylfu_cached::cache::policy::admission_policy::AdmissionPolicy::{maybe_add,create_space,estimate}", "CacheWeight::{is_space_available_for,add,delete,sample}",
                  "FrequencyCounterBasedMinHeapSamples::{new,initial_sample,min_frequency_key,maybe_fill_in}", "TinyLFU::estimate", "FrequencyCounter::estimate", "DoorKeeper::has"]),
    dict(name="c06_maybe_add_rule_2_residents", tier="thorough", file="admission_policy.rs", props=["C06", "C01", "C18"], timeout=1200,
         encodes=["tinylfu_cached::cache::policy::admission_policy::AdmissionPolicy::{maybe_add,create_space,estimate}", "CacheWeight::{is_space_available_for,add,delete,sample}",
                  "FrequencyCounterBasedMinHeapSamples::{new,initial_sample,min_frequency_key,maybe_fill_in}", "TinyLFU::estimate", "FrequencyCounter::estimate", "DoorKeeper::has"]),
    dict(name="c06_maybe_add_rule_3_residents", tier="off", file="admission_policy.rs", props=["C06", "C01"], timeout=1200,
         encodes=["tinylfu_cached::cache::policy::admission_policy::AdmissionPolicy::{maybe_add,create_space,estimate}", "CacheWeight::{is_space_available_for,add,delete,sample}",
                  "FrequencyCounterBasedMinHeapSamples::{new,initial_sample,min_frequency_key,maybe_fill_in}", "TinyLFU::estimate", "FrequencyCounter::estimate", "DoorKeeper::has"]),
    dict(name="c06_maybe_add_rule_any_residents", tier="off", file="admission_policy.rs", props=["C06", "C01"], timeout=1200,
         encodes=["tinylfu_cached::cache::policy::admission_policy::AdmissionPolicy::{maybe_add,create_space,estimate}", "CacheWeight::{is_space_available_for,add,delete,sample}",
                  "FrequencyCounterBasedMinHeapSamples::{new,initial_sample,min_frequency_key,maybe_fill_in}", "TinyLFU::estimate", "FrequencyCounter::estimate", "DoorKeeper::has"]),
    # ---------------------------------------------------------------- whole CacheD: reads (C02)
    dict(name="c02_read_get", tier="quick", file="cached.rs", props=["C02", "C09", "C15"], timeout=900,
         encodes=["tinylfu_cached::cache::cached::CacheD::{get,mark_key_accessed,is_shutting_down}", "MultiGetIterator::next", "MultiGetMapIterator::next", "Store::{get,get_ref}", "Pool::add"]),
    dict(name="c02_read_get_ref", tier="quick", file="cached.rs", props=["C02", "C15", "C18"], timeout=900,
         encodes=["tinylfu_cached::cache::cached::CacheD::{get_ref,mark_key_accessed,is_shutting_down}", "MultiGetIterator::next", "MultiGetMapIterator::next", "Store::{get,get_ref}", "Pool::add"]),
    dict(name="c02_read_map_get", tier="quick", file="cached.rs", props=["C02"], timeout=900,
         encodes=["tinylfu_cached::cache::cached::CacheD::{map_get,mark_key_accessed,is_shutting_down}", "MultiGetIterator::next", "MultiGetMapIterator::next", "Store::{get,get_ref}", "Pool::add"]),
    dict(name="c02_read_map_get_ref", tier="quick", file="cached.rs", props=["C02"], timeout=900,
         encodes=["tinylfu_cached::cache::cached::CacheD::{map_get_ref,mark_key_accessed,is_shutting_down}", "MultiGetIterator::next", "MultiGetMapIterator::next", "Store::{get,get_ref}", "Pool::add"]),
    dict(name="c02_read_multi_get", tier="quick", file="cached.rs", props=["C02"], timeout=900,
         encodes=["tinylfu_cached::cache::cached::CacheD::{multi_get,mark_key_accessed,is_shutting_down}", "MultiGetIterator::next", "MultiGetMapIterator::next", "Store::{get,get_ref}", "Pool::add"]),
    dict(name="c02_read_multi_get_iterator", tier="quick", file="cached.rs", props=["C02"], timeout=900,
         encodes=["tinylfu_cached::cache::cached::CacheD::{multi_get_iterator,mark_key_accessed,is_shutting_down}", "MultiGetIterator::next", "MultiGetMapIterator::next", "Store::{get,get_ref}", "Pool::add"]),
    dict(name="c02_read_multi_get_map_iterator", tier="quick", file="cached.rs", props=["C02"], timeout=900,
         encodes=["tinylfu_cached::cache::cached::CacheD::{multi_get_map_iterator,mark_key_accessed,is_shutting_down}", "MultiGetIterator::next", "MultiGetMapIterator::next", "Store::{get,get_ref}", "Pool::add"]),
    dict(name="c02_two_keys_multi_get", tier="quick", file="cached.rs", props=["C02"], timeout=900,
         encodes=["tinylfu_cached::cache::cached::CacheD::{multi_get,multi_get_iterator,multi_get_map_iterator}", "MultiGetIterator::next", "MultiGetMapIterator::next"]),
    dict(name="c02_two_keys_iterator", tier="quick", file="cached.rs", props=["C02"], timeout=900,
         encodes=["tinylfu_cached::cache::cached::CacheD::{multi_get,multi_get_iterator,multi_get_map_iterator}", "MultiGetIterator::next", "MultiGetMapIterator::next"]),
    dict(name="c02_two_keys_map_iterator", tier="quick", file="cached.rs", props=["C02"], timeout=900,
         encodes=["tinylfu_cached::cache::cached::CacheD::{multi_get,multi_get_iterator,multi_get_map_iterator}", "MultiGetIterator::next", "MultiGetMapIterator::next"]),
    dict(name="c07_put_client_step_q0", tier="quick", group="c07_put_client_step", file="cached.rs", props=["C07"], timeout=900,
         encodes=["tinylfu_cached::cache::cached::CacheD::{put,put_with_weight,put_with_ttl,put_with_weight_and_ttl,key_description}", "Store::is_present", "CommandExecutor::send", "Calculation::perform", "CommandAcknowledgement::{new,rejected}"]),
    dict(name="c07_put_client_step_q1", tier="quick", group="c07_put_client_step", file="cached.rs", props=["C07"], timeout=900,
         encodes=["tinylfu_cached::cache::cached::CacheD::{put,put_with_weight,put_with_ttl,put_with_weight_and_ttl,key_description}", "Store::is_present", "CommandExecutor::send", "Calculation::perform", "CommandAcknowledgement::{new,rejected}"]),
    dict(name="c07_put_client_step_q2", tier="quick", group="c07_put_client_step", file="cached.rs", props=["C07", "C11", "C17"], timeout=900,
         encodes=["tinylfu_cached::cache::cached::CacheD::{put,put_with_weight,put_with_ttl,put_with_weight_and_ttl,key_description}", "Store::is_present", "CommandExecutor::send", "Calculation::perform", "CommandAcknowledgement::{new,rejected}"]),
    dict(name="c07_put_client_step_q3", tier="quick", group="c07_put_client_step", file="cached.rs", props=["C07"], timeout=900,
         encodes=["tinylfu_cached::cache::cached::CacheD::{put,put_with_weight,put_with_ttl,put_with_weight_and_ttl,key_description}", "Store::is_present", "CommandExecutor::send", "Calculation::perform", "CommandAcknowledgement::{new,rejected}"]),
    dict(name="c04_delete_hides_then_releases_q0", tier="quick", group="c04_delete_hides_then_releases", file="cached.rs", props=["C04", "C16", "C18"], timeout=900,
         encodes=["tinylfu_cached::cache::cached::CacheD::{delete,get,get_ref,put_with_weight,total_weight_used}", "Store::{mark_deleted,delete}", "CommandExecutor::{send,spin (worker closure),delete}", "AdmissionPolicy::delete", "CacheWeight::delete", "TTLTicker::delete", "CommandAcknowledgementHandle::{done,poll}"]),
    dict(name="c04_delete_hides_then_releases_q1", tier="quick", group="c04_delete_hides_then_releases", file="cached.rs", props=["C04"], timeout=900,
         encodes=["tinylfu_cached::cache::cached::CacheD::{delete,get,get_ref,put_with_weight,total_weight_used}", "Store::{mark_deleted,delete}", "CommandExecutor::{send,spin (worker closure),delete}", "AdmissionPolicy::delete", "CacheWeight::delete", "TTLTicker::delete", "CommandAcknowledgementHandle::{done,poll}"]),
    dict(name="c04_delete_hides_then_releases_q2", tier="quick", group="c04_delete_hides_then_releases", file="cached.rs", props=["C04"], timeout=900,
         encodes=["tinylfu_cached::cache::cached::CacheD::{delete,get,get_ref,put_with_weight,total_weight_used}", "Store::{mark_deleted,delete}", "CommandExecutor::{send,spin (worker closure),delete}", "AdmissionPolicy::delete", "CacheWeight::delete", "TTLTicker::delete", "CommandAcknowledgementHandle::{done,poll}"]),
    dict(name="c04_delete_hides_then_releases_q3", tier="quick", group="c04_delete_hides_then_releases", file="cached.rs", props=["C04"], timeout=900,
         encodes=["tinylfu_cached::cache::cached::CacheD::{delete,get,get_ref,put_with_weight,total_weight_used}", "Store::{mark_deleted,delete}", "CommandExecutor::{send,spin (worker closure),delete}", "AdmissionPolicy::delete", "CacheWeight::delete", "TTLTicker::delete", "CommandAcknowledgementHandle::{done,poll}"]),
    dict(name="c07_put_while_writer_holds_guard", file="cached.rs", props=["C07", "C18"], timeout=900,
         encodes=["tinylfu_cached::cache::cached::CacheD::{put_or_update,put_with_weight}", "Store::{update,is_present}"]),
    dict(name="c18_worker_evicts_ttl_key_through_real_hook", tier="quick", file="cached.rs", props=["C18", "C05"], timeout=900,
         encodes=["tinylfu_cached::cache::command::command_executor::CommandExecutor::spin (worker closure + real delete hook)", "AdmissionPolicy::{maybe_add,create_space}", "CacheWeight::delete", "Store::delete"]),
    dict(name="c18_sweeper_evicts_expired_key_through_real_hook", file="cached.rs", props=["C18", "C10"], timeout=900,
         encodes=["tinylfu_cached::cache::expiration::TTLTicker::spin (sweeper closure)", "CacheD::ttl_ticker (real evict hook)", "AdmissionPolicy::delete_with_hook", "CacheWeight::delete", "Store::delete"]),
    dict(name="c05_f3_put_applied_while_key_is_held", file="cached.rs", props=["C05"], timeout=900,
         encodes=["tinylfu_cached::cache::command::command_executor::CommandExecutor::{send,spin (worker closure: Put arm),put}", "AdmissionPolicy::maybe_add", "CacheWeight::add", "Store::put"]),
    dict(name="c05_put_of_expired_unswept_key", file="cached.rs", props=["C05", "C07"], timeout=900,
         encodes=["tinylfu_cached::cache::cached::CacheD::{put_with_weight,put_with_weight_and_ttl}", "Store::is_present", "CommandExecutor::{send,spin (worker closure: Put, PutWithTTL arms)}", "AdmissionPolicy::maybe_add", "Store::{put,put_with_ttl}"]),
    dict(name="c05_put_of_soft_deleted_key", file="cached.rs", props=["C05", "C07"], timeout=900,
         encodes=["tinylfu_cached::cache::cached::CacheD::{put_with_weight,put_with_weight_and_ttl}", "Store::is_present", "CommandExecutor::{send,spin (worker closure: Put, PutWithTTL arms)}", "AdmissionPolicy::maybe_add", "Store::{put,put_with_ttl}"]),
    dict(name="c05_put_ttl_of_expired_unswept_key", file="cached.rs", props=["C05", "C07"], timeout=900,
         encodes=["tinylfu_cached::cache::cached::CacheD::{put_with_weight,put_with_weight_and_ttl}", "Store::is_present", "CommandExecutor::{send,spin (worker closure: Put, PutWithTTL arms)}", "AdmissionPolicy::maybe_add", "Store::{put,put_with_ttl}"]),
    dict(name="c04_delete_while_reader_holds_guard", tier="off", file="cached.rs", props=["C04", "C18"], timeout=900,
         encodes=["tinylfu_cached::cache::cached::CacheD::{get_ref,delete,get,total_weight_used}", "Store::mark_deleted"]),
    dict(name="c08_upsert_plain_key_ttl_untouched", group="c08_upsert_small_world", file="cached.rs", props=["C08", "C10"], timeout=900,
         encodes=["tinylfu_cached::cache::cached::CacheD::{put_or_update,get}", "PutOrUpdateRequest::updated_weight", "Store::update", "StoredValue::update", "UpdateResponse::type_of_expiry_update", "TTLTicker::{put,update,delete}", "AdmissionPolicy::weight_of", "CommandExecutor::send"]),
    dict(name="c08_upsert_plain_key_ttl_added", group="c08_upsert_small_world", file="cached.rs", props=["C08", "C10"], timeout=900,
         encodes=["tinylfu_cached::cache::cached::CacheD::{put_or_update,get}", "PutOrUpdateRequest::updated_weight", "Store::update", "StoredValue::update", "UpdateResponse::type_of_expiry_update", "TTLTicker::{put,update,delete}", "AdmissionPolicy::weight_of", "CommandExecutor::send"]),
    dict(name="c08_upsert_plain_key_ttl_removed", group="c08_upsert_small_world", file="cached.rs", props=["C08", "C10"], timeout=900,
         encodes=["tinylfu_cached::cache::cached::CacheD::{put_or_update,get}", "PutOrUpdateRequest::updated_weight", "Store::update", "StoredValue::update", "UpdateResponse::type_of_expiry_update", "TTLTicker::{put,update,delete}", "AdmissionPolicy::weight_of", "CommandExecutor::send"]),
    dict(name="c08_upsert_ttl_key_ttl_untouched", group="c08_upsert_small_world", file="cached.rs", props=["C08", "C10"], timeout=900,
         encodes=["tinylfu_cached::cache::cached::CacheD::{put_or_update,get}", "PutOrUpdateRequest::updated_weight", "Store::update", "StoredValue::update", "UpdateResponse::type_of_expiry_update", "TTLTicker::{put,update,delete}", "AdmissionPolicy::weight_of", "CommandExecutor::send"]),
    dict(name="c08_upsert_ttl_key_ttl_changed", group="c08_upsert_small_world", file="cached.rs", props=["C08", "C10"], timeout=900,
         encodes=["tinylfu_cached::cache::cached::CacheD::{put_or_update,get}", "PutOrUpdateRequest::updated_weight", "Store::update", "StoredValue::update", "UpdateResponse::type_of_expiry_update", "TTLTicker::{put,update,delete}", "AdmissionPolicy::weight_of", "CommandExecutor::send"]),
    dict(name="c08_upsert_ttl_key_ttl_removed", group="c08_upsert_small_world", file="cached.rs", props=["C08", "C10"], timeout=900,
         encodes=["tinylfu_cached::cache::cached::CacheD::{put_or_update,get}", "PutOrUpdateRequest::updated_weight", "Store::update", "StoredValue::update", "UpdateResponse::type_of_expiry_update", "TTLTicker::{put,update,delete}", "AdmissionPolicy::weight_of", "CommandExecutor::send"]),
    dict(name="c08_put_or_update_step_q0_k0", tier="off", group="c08_put_or_update_step", file="cached.rs", props=["C08", "C10", "C18"], timeout=1500,
         encodes=["tinylfu_cached::cache::cached::CacheD::{put_or_update,get,key_description}", "PutOrUpdateRequest::updated_weight", "Store::update", "StoredValue::update", "UpdateResponse::type_of_expiry_update", "TTLTicker::{put,update,delete}", "AdmissionPolicy::{weight_of,update}", "CacheWeight::update", "CommandExecutor::{send,spin (worker closure: UpdateWeight arm)}"]),
    dict(name="c08_put_or_update_step_q0_k1", tier="off", group="c08_put_or_update_step", file="cached.rs", props=["C08", "C10", "C18"], timeout=1500,
         encodes=["tinylfu_cached::cache::cached::CacheD::{put_or_update,get,key_description}", "PutOrUpdateRequest::updated_weight", "Store::update", "StoredValue::update", "UpdateResponse::type_of_expiry_update", "TTLTicker::{put,update,delete}", "AdmissionPolicy::{weight_of,update}", "CacheWeight::update", "CommandExecutor::{send,spin (worker closure: UpdateWeight arm)}"]),
    dict(name="c08_put_or_update_step_q0_k2", tier="off", group="c08_put_or_update_step", file="cached.rs", props=["C08", "C10", "C18"], timeout=1500,
         encodes=["tinylfu_cached::cache::cached::CacheD::{put_or_update,get,key_description}", "PutOrUpdateRequest::updated_weight", "Store::update", "StoredValue::update", "UpdateResponse::type_of_expiry_update", "TTLTicker::{put,update,delete}", "AdmissionPolicy::{weight_of,update}", "CacheWeight::update", "CommandExecutor::{send,spin (worker closure: UpdateWeight arm)}"]),
    dict(name="c08_put_or_update_step_q1_k0", tier="off", group="c08_put_or_update_step", file="cached.rs", props=["C08"], timeout=1500,
         encodes=["tinylfu_cached::cache::cached::CacheD::{put_or_update,get,key_description}", "PutOrUpdateRequest::updated_weight", "Store::update", "StoredValue::update", "UpdateResponse::type_of_expiry_update", "TTLTicker::{put,update,delete}", "AdmissionPolicy::{weight_of,update}", "CacheWeight::update", "CommandExecutor::{send,spin (worker closure: UpdateWeight arm)}"]),
    dict(name="c08_put_or_update_step_q1_k1", tier="off", group="c08_put_or_update_step", file="cached.rs", props=["C08"], timeout=1500,
         encodes=["tinylfu_cached::cache::cached::CacheD::{put_or_update,get,key_description}", "PutOrUpdateRequest::updated_weight", "Store::update", "StoredValue::update", "UpdateResponse::type_of_expiry_update", "TTLTicker::{put,update,delete}", "AdmissionPolicy::{weight_of,update}", "CacheWeight::update", "CommandExecutor::{send,spin (worker closure: UpdateWeight arm)}"]),
    dict(name="c08_put_or_update_step_q1_k2", tier="off", group="c08_put_or_update_step", file="cached.rs", props=["C08"], timeout=1500,
         encodes=["tinylfu_cached::cache::cached::CacheD::{put_or_update,get,key_description}", "PutOrUpdateRequest::updated_weight", "Store::update", "StoredValue::update", "UpdateResponse::type_of_expiry_update", "TTLTicker::{put,update,delete}", "AdmissionPolicy::{weight_of,update}", "CacheWeight::update", "CommandExecutor::{send,spin (worker closure: UpdateWeight arm)}"]),
    dict(name="c08_put_or_update_step_q2", tier="quick", group="c08_put_or_update_step", file="cached.rs", props=["C08"], timeout=1500,
         encodes=["tinylfu_cached::cache::cached::CacheD::{put_or_update,get,key_description}", "PutOrUpdateRequest::updated_weight", "Store::update", "StoredValue::update", "UpdateResponse::type_of_expiry_update", "TTLTicker::{put,update,delete}", "AdmissionPolicy::{weight_of,update}", "CacheWeight::update", "CommandExecutor::{send,spin (worker closure: UpdateWeight arm)}"]),
    dict(name="c08_put_or_update_step_q3", tier="quick", group="c08_put_or_update_step", file="cached.rs", props=["C08"], timeout=1500,
         encodes=["tinylfu_cached::cache::cached::CacheD::{put_or_update,get,key_description}", "PutOrUpdateRequest::updated_weight", "Store::update", "StoredValue::update", "UpdateResponse::type_of_expiry_update", "TTLTicker::{put,update,delete}", "AdmissionPolicy::{weight_of,update}", "CacheWeight::update", "CommandExecutor::{send,spin (worker closure: UpdateWeight arm)}"]),
    dict(name="c05_worker_put_step_q0", kf_only=True, tier="quick", group="c05_worker_put_step", file="cached.rs", props=["C05"], timeout=1800,
         encodes=["tinylfu_cached::cache::command::command_executor::CommandExecutor::{spin (worker closure: Put, PutWithTTL arms),put,put_with_ttl,send}", "AdmissionPolicy::{maybe_add,create_space}", "Store::{put,put_with_ttl,delete (as eviction hook)}", "TTLTicker::put", "CommandAcknowledgementHandle::done"]),
    dict(name="c05_worker_put_step_q1", kf_only=True, tier="quick", group="c05_worker_put_step", file="cached.rs", props=["C05"], timeout=1800,
         encodes=["tinylfu_cached::cache::command::command_executor::CommandExecutor::{spin (worker closure: Put, PutWithTTL arms),put,put_with_ttl,send}", "AdmissionPolicy::{maybe_add,create_space}", "Store::{put,put_with_ttl,delete (as eviction hook)}", "TTLTicker::put", "CommandAcknowledgementHandle::done"]),
    dict(name="c05_worker_put_step_q2", tier="off", group="c05_worker_put_step", file="cached.rs", props=["C05", "C01", "C03", "C18"], timeout=1800,
         encodes=["tinylfu_cached::cache::command::command_executor::CommandExecutor::{spin (worker closure: Put, PutWithTTL arms),put,put_with_ttl,send}", "AdmissionPolicy::{maybe_add,create_space}", "Store::{put,put_with_ttl,delete (as eviction hook)}", "TTLTicker::put", "CommandAcknowledgementHandle::done"]),
    dict(name="c05_worker_put_step_q3", tier="off", group="c05_worker_put_step", file="cached.rs", props=["C05"], timeout=1800,
         encodes=["tinylfu_cached::cache::command::command_executor::CommandExecutor::{spin (worker closure: Put, PutWithTTL arms),put,put_with_ttl,send}", "AdmissionPolicy::{maybe_add,create_space}", "Store::{put,put_with_ttl,delete (as eviction hook)}", "TTLTicker::put", "CommandAcknowledgementHandle::done"]),
    # ---------------------------------------------------------------- expiry index + sweeper (C10)
    dict(name="c10_one_sweep_removes_exactly_the_expired", tier="quick", file="expiration.rs", props=["C10"], timeout=900,
         encodes=["tinylfu_cached::cache::expiration::TTLTicker::{new,spin (sweeper closure),shard_index}", "hashbrown::HashMap::retain (model)"]),
    dict(name="c13_sweeper_stops_after_shutdown", tier="quick", file="expiration.rs", props=["C13"], timeout=300,
         encodes=["tinylfu_cached::cache::expiration::TTLTicker::{shutdown,clear,spin (sweeper closure)}"]),
    dict(name="c10_index_tracks_current_expiry", tier="quick", file="expiration.rs", props=["C10", "C03"], timeout=900,
         encodes=["tinylfu_cached::cache::expiration::TTLTicker::{put,update,delete,get,shard_index}"]),
    # ---------------------------------------------------------------- access pipeline (C15)
    dict(name="c15_pool_add_b1_empty", tier="quick", group="c15_pool_add", file="pool.rs", props=["C15"], timeout=600,
         encodes=["tinylfu_cached::cache::pool::Pool::{new,add}", "Buffer::{new,add}", "AdmissionPolicy::accept (select! try-send)"]),
    dict(name="c15_pool_add_b1_full", tier="quick", group="c15_pool_add", file="pool.rs", props=["C15"], timeout=600,
         encodes=["tinylfu_cached::cache::pool::Pool::{new,add}", "Buffer::{new,add}", "AdmissionPolicy::accept (select! try-send)"]),
    dict(name="c15_pool_add_b2_half", tier="quick", group="c15_pool_add", file="pool.rs", props=["C15"], timeout=600,
         encodes=["tinylfu_cached::cache::pool::Pool::{new,add}", "Buffer::{new,add}", "AdmissionPolicy::accept (select! try-send)"]),
    dict(name="c15_pool_add_b2_full", tier="quick", group="c15_pool_add", file="pool.rs", props=["C15", "C18"], timeout=600,
         encodes=["tinylfu_cached::cache::pool::Pool::{new,add}", "Buffer::{new,add}", "AdmissionPolicy::accept (select! try-send)"]),
    dict(name="c15_pool_add_two_buffers", tier="off", group="c15_pool_add", file="pool.rs", props=["C15", "C18"], timeout=600,
         encodes=["tinylfu_cached::cache::pool::Pool::{new,add}", "Buffer::{new,add}", "AdmissionPolicy::accept (select! try-send)"]),
    # ---------------------------------------------------------------- small kernels
    dict(name="c05_ids_are_fresh", tier="quick", file="id_generator.rs", props=["C05", "C11"], timeout=120, encodes=["tinylfu_cached::cache::unique_id::increasing_id_generator::IncreasingIdGenerator::{new,next}"]),
    dict(name="c17_default_weight_calculation", tier="quick", file="config.rs", props=["C17", "C08"], timeout=120, encodes=["tinylfu_cached::cache::config::weight_calculation::Calculation::{perform,ttl_ticker_entry_size}"]),
    dict(name="c08_updated_weight_kernel", tier="quick", file="put_or_update.rs", props=["C08"], timeout=120, encodes=["tinylfu_cached::cache::put_or_update::PutOrUpdateRequest::updated_weight"]),
    dict(name="c08_builder_builds_wellformed_requests", tier="quick", file="put_or_update.rs", props=["C08", "C17"], timeout=120, encodes=["tinylfu_cached::cache::put_or_update::PutOrUpdateRequestBuilder::{new,value,weight,time_to_live,remove_time_to_live,build}"]),
    # ---------------------------------------------------------------- bursts, shutdown, sweep end to end, consumer
    dict(name="c11_put_then_delete_unawaited", file="cached.rs", props=["C11", "C18"], timeout=900,
         encodes=["tinylfu_cached::cache::cached::CacheD::{put_with_weight,delete,get}", "CommandExecutor::{send,spin (worker closure)}"]),
    dict(name="c11_unawaited_burst_queue_of_1", tier="off", group="c11_unawaited_burst", file="cached.rs", props=["C11", "C18"], timeout=1200,
         encodes=["tinylfu_cached::cache::cached::CacheD::{put_with_weight,delete,get}", "CommandExecutor::{send,spin (worker closure)}", "crossbeam_channel (model): blocking send on a full queue"]),
    dict(name="c11_unawaited_burst_queue_of_2", tier="off", group="c11_unawaited_burst", file="cached.rs", props=["C11", "C18"], timeout=1200,
         encodes=["tinylfu_cached::cache::cached::CacheD::{put_with_weight,delete,get}", "CommandExecutor::{send,spin (worker closure)}", "crossbeam_channel (model): blocking send on a full queue"]),
    dict(name="c13_shutdown_gate_and_drain_queue_of_1", tier="off", group="c13_shutdown_gate_and_drain", file="cached.rs", props=["C13", "C18"], timeout=1200,
         encodes=["tinylfu_cached::cache::cached::CacheD::{shutdown,is_shutting_down + every read and write entry point}", "CommandExecutor::{shutdown,spin (worker closure: Shutdown arm + drain)}", "AdmissionPolicy::{shutdown,clear}", "TTLTicker::{shutdown,clear}", "Store::clear"]),
    dict(name="c13_shutdown_gate_and_drain_queue_of_2", tier="off", group="c13_shutdown_gate_and_drain", file="cached.rs", props=["C13", "C18"], timeout=1200,
         encodes=["tinylfu_cached::cache::cached::CacheD::{shutdown,is_shutting_down + every read and write entry point}", "CommandExecutor::{shutdown,spin (worker closure: Shutdown arm + drain)}", "AdmissionPolicy::{shutdown,clear}", "TTLTicker::{shutdown,clear}", "Store::clear"]),
    dict(name="c13_late_send_races_drain", tier="off", file="cached.rs", props=["C13", "C12"], timeout=900,
         encodes=["tinylfu_cached::cache::command::command_executor::CommandExecutor::{shutdown,send,spin (worker closure: Shutdown arm + drain loop)}", "CommandAcknowledgementHandle::done"]),
    dict(name="c13_late_send_at_dequeue_1", tier="quick", group="c13_late_send_at_dequeue", file="cached.rs", props=["C13"], timeout=600,
         encodes=["CommandExecutor::spin (Shutdown arm, drain loop)", "CommandExecutor::send", "CommandAcknowledgementHandle::done"]),
    dict(name="c13_late_send_at_dequeue_2", tier="quick", group="c13_late_send_at_dequeue", file="cached.rs", props=["C13"], timeout=600,
         encodes=["CommandExecutor::spin (Shutdown arm, drain loop)", "CommandExecutor::send", "CommandAcknowledgementHandle::done"]),
    dict(name="c13_late_send_at_dequeue_3", tier="quick", group="c13_late_send_at_dequeue", file="cached.rs", props=["C13"], timeout=600,
         encodes=["CommandExecutor::spin (Shutdown arm, drain loop)", "CommandExecutor::send", "CommandAcknowledgementHandle::done"]),
    dict(name="c13_command_behind_shutdown_is_answered", tier="quick", file="cached.rs", props=["C13", "C12"], timeout=900,
         encodes=["tinylfu_cached::cache::command::command_executor::CommandExecutor::{shutdown,send,spin (worker closure: drain loop)}"]),
    dict(name="c10_sweep_with_stale_entry", tier="off", file="cached.rs", props=["C10"], timeout=1200,
         encodes=["tinylfu_cached::cache::expiration::TTLTicker::spin (sweeper closure)", "CacheD::ttl_ticker (evict hook)", "AdmissionPolicy::delete_with_hook", "CacheWeight::delete"]),
    dict(name="c10_sweep_end_to_end", tier="off", group="c10_sweep_end_to_end", file="cached.rs", props=["C10"], timeout=1200,
         encodes=["tinylfu_cached::cache::expiration::TTLTicker::spin (sweeper closure)", "CacheD::ttl_ticker (evict hook)", "AdmissionPolicy::delete_with_hook", "CacheWeight::delete", "Store::delete"]),
    dict(name="c10_sweep_end_to_end_later_tick", tier="off", group="c10_sweep_end_to_end", file="cached.rs", props=["C10", "C18"], timeout=1200,
         encodes=["tinylfu_cached::cache::expiration::TTLTicker::spin (sweeper closure)", "CacheD::ttl_ticker (evict hook)", "AdmissionPolicy::delete_with_hook", "CacheWeight::delete", "Store::delete"]),
    dict(name="c10_sweep_end_to_end_other_shard", tier="off", group="c10_sweep_end_to_end", file="cached.rs", props=["C10"], timeout=1200,
         encodes=["tinylfu_cached::cache::expiration::TTLTicker::spin (sweeper closure)", "CacheD::ttl_ticker (evict hook)", "AdmissionPolicy::delete_with_hook", "CacheWeight::delete", "Store::delete"]),
    dict(name="c15_consumer_applies_each_batch_once", tier="quick", file="admission_policy.rs", props=["C15"], timeout=900,
         encodes=["tinylfu_cached::cache::policy::admission_policy::AdmissionPolicy::{with_channel_capacity,start (consumer closure),accept,estimate}", "TinyLFU::{new,increment_access}"]),
    dict(name="c15_consumer_races_estimate", file="admission_policy.rs", props=["C15"], timeout=900,
         encodes=["tinylfu_cached::cache::policy::admission_policy::AdmissionPolicy::{start (consumer closure),estimate,accept}"]),
    dict(name="c13_consumer_stops_on_shutdown", tier="quick", file="admission_policy.rs", props=["C13"], timeout=900,
         encodes=["tinylfu_cached::cache::policy::admission_policy::AdmissionPolicy::{shutdown,clear,accept,start (consumer closure)}"]),
]

COMMON_WORLD = ("CacheD-level harnesses: a CacheD built by struct literal from the real Store, AdmissionPolicy, TTLTicker (with the real evict hook), "
                "CommandExecutor (real worker closure, stashed and run by the harness); pool of 3 keys (101..103) + one never-written key; quick tier: concrete occupancy shape "
                "(key 101 held with TTL, 102 held without TTL, 103 absent) with symbolic value / weight (1..2^40) / expiry instant (<= 2^40 s, any ns) / soft-delete mark / limit (1..2^42) / clock; "
                "thorough tier adds further shapes and symbolic occupancy; model map capacity 4, queue capacity <= 16, unwind 5..12 with unwinding assertions")

PROPERTY_NOTES = {
    "C01": dict(
        bounds="CacheWeight step: limit 1..=i64::MAX, 2 resident ids (quick; arbitrary occupancy of 3 at thorough) with arbitrary positive weights, op in add/update/delete/clear with arbitrary weight; "
               "admission: 1 resident (quick) and 2 residents (thorough) with arbitrary weights, arbitrary limit, arbitrary incoming weight (above the limit included), arbitrary frequency profile, and an arbitrary amount of weight IN FLIGHT "
               "(total = sum of charged weights + g, g >= 0: the state in which another thread's delete has removed its map entry but not yet subtracted its weight); quick: one resident, thorough: two residents. " + COMMON_WORLD,
        outside="crossing interleavings of two multi-step operations beyond the in-flight pre-state; admission with 3 or more residents (harness built, does not complete: DESIGN.md section 4); the total observed between two shared-memory operations of one step (only before/after each operation)",
        explanation="inductive: every step that can change the total (add, update, delete, clear, maybe_add incl. eviction) from an arbitrary state with 0 <= total <= limit re-establishes 0 <= total <= limit; "
                    "the one step that does not (UpdateWeight with an increase above the free space) is the recorded finding F1",
        assumptions=["dashmap model: entry operations atomic; parking_lot model: mutual exclusion"]),
    "C02": dict(
        bounds="Store level: arbitrary entries (symbolic attributes) for 3 keys, any clock instant <= 2^40 s, queried key any of the pool or a never-written key, get / get_ref / is_present; every store write op from the same states; "
               "CacheD level: each of the seven read entry points separately, identity-like and CONSTANT key-hash function, one and two requested keys (equal or different). " + COMMON_WORLD,
        outside="a read overlapping a write of the same key at sub-operation granularity (needs crossing interleavings); DashMap's own linearizability (assumed: one look-up per read is asserted)",
        explanation="differential against an abstract map key -> (value, id, expiry, soft-deleted): every read variant returns Some(v) iff the abstract entry is present, not soft-deleted and unexpired, v being exactly its value; "
                    "every store write changes exactly the addressed entry as specified; reads perform exactly one look-up"),
    "C03": dict(
        bounds="frame conditions of every one-step harness (store writes, cache-weight ops, expiry-index ops, sweep, admission, worker put); no-pressure admission: free >= weight for arbitrary values; " + COMMON_WORLD,
        outside="the induction over unbounded histories is the classical argument, not a solver result; access counting / sketch ageing touching the store (they have no reference to it: checked by the compiler, not the solver)",
        explanation="three obligations from arbitrary states: (1) frame: a step on key k' / id i' leaves every other key's store entry, weight entry and expiry entry bit-identical; (2) maybe_add with free space >= weight evicts nothing; "
                    "(3) the sweeper removes only entries whose expiry has passed (C10)"),
    "C04": dict(
        bounds="delete(k) for k in every life-cycle state (held with TTL: alive / expired / already soft-deleted; held without TTL; absent pool key; never written), immediate read by get or get_ref, then the real worker applies the queued Delete, then a re-put. " + COMMON_WORLD,
        outside="a second client writing the same key concurrently with the delete; a reader holding a get_ref guard across the delete (DashMap guard semantics)",
        explanation="(a) after delete returns, before the worker runs, both read paths return None and only the soft-delete mark changed; (b) after the worker step: Accepted iff held, entry/weight/expiry entry gone, total reduced by exactly the weight, others untouched, else Rejected(KeyDoesNotExist) and nothing changed; (c) re-put is not 'already exists'"),
    "C05": dict(
        bounds="CacheWeight one-step harness (see C01) with the total == sum identity; admission step with one resident; one-key-world CacheD harnesses: a Put applied by the real worker while the key is held (finding F3 demonstrated), puts of expired-unswept / soft-deleted keys (caller-side guard while F3 stands); delete step; fresh ids. " + COMMON_WORLD,
        outside="the worker's Put under memory pressure on a whole CacheD (harness built, does not complete: DESIGN.md section 4); more than one command in flight for the same key except the recorded finding F3",
        explanation="inductive: each step re-establishes 'store and weight map in bijection by id, total == sum of charged weights'; the pre-state in which a Put for an already-held key is queued (two puts before the first is applied) is the recorded finding F3"),
    "C06": dict(
        bounds="comparator: all (id, weight, frequency) triples (full width); sampler: 3 residents with arbitrary weights and per-hash frequencies, sample sizes 1..=3 (refill exercised with size < residents) and 5; "
               "maybe_add: 1 resident (quick) and 2 residents (thorough; 3 residents built but does not complete), limit 1..=i64::MAX, arbitrary weights, incoming weight 1..=i64::MAX, estimates 0..=16 per key through the real TinyLFU/sketch/doorkeeper code (ties, saturation), weight in flight",
        outside="more than 3 residents in the maybe_add harness (refill inside create_space needs > 5; refill itself is checked on the sampler with smaller sample sizes); tie-break among equal maxima of the victim heap follows VERIF_SEED parity (std leaves it unspecified)",
        explanation="the TinyLFU admission rule written as an executable checker over the observed eviction sequence (victim = a minimum of the sample by (estimate asc, weight desc), evicted only while space is short and only if its estimate <= incoming estimate; accepted iff enough space results)",
        assumptions=["BinaryHeap stand-in: pop returns a greatest element under the crate's own Ord for SampledKey"]),
    "C07": dict(
        bounds="all four put variants, key in every life-cycle state, arbitrary value / weight / TTL (<= 2^40 s). " + COMMON_WORLD,
        outside="the worker side of admission (C06/C05)",
        explanation="readable key => Ready(Rejected(KeyAlreadyExists)), nothing queued, state untouched; absent key => never that reason, exactly one Put/PutWithTTL with key, fresh id, hash, TTL-aware weight, value, TTL; expired-unswept key rejected as existing is the recorded finding F4"),
    "C08": dict(
        bounds="all 11 well-formed request shapes (value? weight? ttl? remove?) x key in every life-cycle state; explicit weights 1..900 on a one-key world (held key of weight 50, with / without TTL, TTL part of the request concrete per harness); absent keys on the three-key world; kernels: updated_weight for all 16 field combinations, StoredValue::update from arbitrary entries, the request builder. " + COMMON_WORLD,
        outside="the worker applying the queued UpdateWeight after an in-place upsert on the three-key world (harnesses built, do not complete: DESIGN.md section 4; CacheWeight::update itself is checked in c05_cache_weight_step); sequences of more than one upsert",
        explanation="differential against the abstract entry: value/expiry changed exactly as requested and visible on return, expiry index follows, the queued UpdateWeight command carries the requested weight (its application is CacheWeight::update, checked in c05_cache_weight_step), absent key => exactly the corresponding put command; findings F5 (dying entry updated in place) and F6 (remove-TTL on weight <= 24 panics) are excluded as regions and reported as KNOWN-FINDING"),
    "C09": dict(
        bounds="put instant, TTL and look instants: seconds 0..=2^40, any nanoseconds, full carry arithmetic; one TTL change (new / remove / keep, with or without value) from an ARBITRARY stored entry (any expiry, soft-deleted or not) followed by a look at any later instant; Store::get/get_ref at store level; all read variants at CacheD level",
        outside="TTL near Duration::MAX (C17); clock before the epoch",
        explanation="alive <=> not soft-deleted and now <= instant_of_last_ttl_write + ttl, checked with the oracle's own (secs, nanos) arithmetic; boundary instants now == expiry and now == expiry + 1ns are covered (cover witnesses)"),
    "C10": dict(
        bounds="one sweep by the REAL sweeper closure at any instant (<= 2^40 s) over an index of up to three entries with arbitrary expiries in 2 shards; put/update/delete/get with arbitrary old and new expiries (same shard and different shard); upsert TTL paths and worker TTL put / delete on a whole CacheD. " + COMMON_WORLD,
        outside="wall-clock ticking of crossbeam's tick (assumed to deliver ticks); shard counts other than 2; a sweep interleaved inside put_or_update between the store update and the index update",
        explanation="after a tick at t in shard s = t.secs mod shards: evicted (hook called once, entry dropped) <=> entry sits in shard s and t > expiry; all other entries untouched; arithmetic liveness lemma: expired and congruent second => swept by this tick; index operations keep each id in exactly the shard of its current expiry"),
    "C11": dict(
        bounds="put(k); delete(k) issued back to back without awaiting on an empty cache, then the real worker closure runs: both queued, dequeued once each in FIFO order (ghost sequence numbers), acknowledged, k absent; client put step: one call -> one command with the caller's acknowledgement; fresh ids",
        outside="three-command bursts with sends blocking on a full queue (harness built, does not complete: DESIGN.md section 4); FIFO-ness across producers is the channel's contract (model)",
        explanation="per-step obligations: one call -> one queued command with the caller's acknowledgement; one worker iteration -> one dequeue, one execution, one done()"),
    "C12": dict(
        bounds="one completion with any final status (6 values), a pending poll before it, one more poll (same or different waker) placed by the solver at ANY shared-memory access of done() (flag, status lock, waker lock), two polls afterwards; reverse nesting: the whole done() placed at any shared access of poll(); pre-resolved acknowledgements",
        outside="weak-memory reorderings of the Release/Acquire pair (CBMC is sequentially consistent); two polls crossing each other",
        explanation="no poll yields Ready(Pending); every Ready carries the status passed to done(); the most recent poller that was told Pending is woken; after completion every poll yields the same status. The window between the flag store and the status write is the recorded finding F2"),
    "C13": dict(
        bounds="commands queued behind Shutdown are answered ShuttingDown and not executed, the one ahead runs (real worker closure incl. drain loop); a writer already past the gate sends its command at the 1st / 2nd / 3rd dequeue operation of the worker (one harness per placement; queue [Shutdown, Delete]): the send fails or its acknowledgement is resolved ShuttingDown, nothing stays queued; sweeper terminates at its first tick after shutdown(), clear() empties the index; consumer terminates on the Shutdown event, later hand-overs are counted as dropped, clear() resets statistics",
        outside="the API gate after shutdown(), shutdown on a full queue, and a late send placed by the solver at any shared-memory operation of the drain instead of at the dequeue operations (harnesses built, do not complete: DESIGN.md section 4); liveness of OS threads",
        explanation="per-actor exit obligations: worker drain answers everything queued behind Shutdown, sweeper and consumer stop"),
    "C14": dict(
        bounds="kernels: all 2^16 contents of a 2-byte row x 4 positions; next_power_2: all counters in 1..=2^63 (full width); "
               "stateful sketch harnesses: width 4 (2 bytes/row) with arbitrary contents, arbitrary 64-bit seeds and hashes; TinyLFU window step with ageing threshold 1..=6 and any count below it, doorkeeper with solver-chosen false positives; "
               "constructor: counters 1..=9; unwind per harness 5..11 with unwinding assertions",
        outside="sketch widths above 16 for the stateful harnesses; false-positive rate of the real bloom filter; allocation failure for huge counters",
        explanation="one-step inductive obligations over arbitrary sketch contents: increment raises the addressed estimate by one unless saturated and never lowers any other; "
                    "ageing halves every counter; TinyLFU resets exactly at the configured threshold",
        assumptions=["rand model: seeds are arbitrary 64-bit values", "bloomfilter model: no false negatives, false positives arbitrary but stable until clear"]),
    "C15": dict(
        bounds="one access record pushed from an arbitrary pipeline state: pool size 1..=2, buffer size 1..=2, arbitrary fill per buffer, access queue capacity 1..=2 with arbitrary occupancy (saturated consumer), consumer alive or gone; each CacheD read variant: hit adds exactly one record, miss none",
        outside="'any number of reading threads' beyond the per-step identity plus the buffer lock's mutual exclusion (assumed); the consumer thread applying a batch (harness planned)",
        explanation="counting identity preserved by every step: buffered + AccessAdded + AccessDropped grows by exactly one per hit; a full buffer is handed over whole to exactly one of added/dropped; no blocking queue operation and exactly one lock on the hit path"),
    "C16": dict(
        bounds="hit_ratio: hits, misses 0..=255 (CBMC's IEEE-754 model; larger ranges did not finish in 5 min); counters: arbitrary 64-bit values, each increment method; summary; weight statistics identity in the CacheWeight step (two's-complement add for decreases, full i64 range); hit/miss/keys counters in store and CacheD steps",
        outside="hit_ratio for counters above 255 (the branch structure is range-independent; the float division is not re-verified above the bound)",
        explanation="per-step: each counter method changes exactly its counter; weight_added - weight_removed tracks the total (mod 2^64); every lookup is exactly one hit or miss; ratio bracketed against exactly representable thresholds. misses == 0 => ratio 0 is the recorded finding F9"),
    "C17": dict(
        bounds="Kani's built-in checks (panic, overflow, bounds, unwrap) are on in every harness; C17's own list: sketch constructor counters 1..=9, next_power_2 full width, TinyLFU::new counters 1..=8, default weight calculation, request builder for all well-formed shapes, client put step with weights up to i64::MAX - see C01/C05/C08 for the arithmetic findings",
        outside="allocation failure; panics inside client-supplied closures; TTL near Duration::MAX and weights near i64::MAX on the upsert path (boundary harness planned)",
        explanation="a reachable panic in any harness is a failed check of that harness"),
    "C18": dict(
        bounds="lock-order graph: one reachability query per ordered pair of lock/queue classes in each C18 harness (cache-weight ops, pool add, ack races, delete + worker, unawaited put+delete + worker, get_ref hit path, guard-held races, real sweeper with real evict hook and real worker evicting a TTL key through its real delete hook, each on a one-key world); union graph checked for cycles; re-entrant acquisition is an assertion in every harness",
        outside="fairness; real lock implementations; more than two logical threads; eviction paths on worlds with more than one resident",
        explanation="acquisitions respect a partial order (the observed held->acquired edges are acyclic), no re-entrant acquisition, no blocking send under a lock on the explored paths"),
}
GENERIC_NOTE = ("Trusted: Kani/CBMC/CaDiCaL; the verification models of dashmap, parking_lot, crossbeam-channel, hashbrown, bloomfilter, rand "
                "(documented contracts, listed in evidence); rustc MIR -> goto translation; Key=Value=u64 instantiation; sequential consistency. "
                "Bounded: holds for every value inside the stated bounds, says nothing outside them.")

MANIFEST_TEXT = {}
_LEVEL = {
    "C01": "Bounded model checking of every step that changes the total weight (CacheWeight add/update/delete/clear, maybe_add with eviction incl. weight in flight, worker put) from arbitrary states with symbolic limit and weights: 0 <= total <= limit is re-established; the UpdateWeight breach is a recorded finding.",
    "C02": "Bounded differential check of every read entry point and every store write against an abstract map, from arbitrary entry attributes, clock instants and queried keys, incl. a constant key-hash function.",
    "C03": "Bounded frame conditions of every step harness plus 'no eviction without pressure' and 'sweeper removes only expired entries'; the induction over histories is stated as an argument.",
    "C04": "Bounded check of delete on a whole CacheD: immediate invisibility before the worker runs, complete release after the real worker applied the command, rejection for absent keys, re-put.",
    "C05": "Bounded inductive check that store and weight map stay in bijection and total == sum of charged weights across CacheWeight ops, worker put (with eviction), delete and client steps; the double-put leak is a recorded finding.",
    "C06": "Bounded check of the real maybe_add/create_space/sampler/estimate code against the TinyLFU admission rule as an executable checker over the observed eviction sequence, for all weights, limits and frequency profiles with up to 3 residents.",
    "C07": "Bounded check of all four put variants against every key life-cycle state: rejection on the spot exactly for readable keys, exactly one well-formed queued command otherwise; expired-unswept rejection is a recorded finding.",
    "C08": "Bounded differential check of put_or_update over all well-formed request shapes x key states, including the worker's application of the weight update; two recorded findings are excluded by region.",
    "C09": "Bounded check of expiry arithmetic and the alive filter over all put instants, TTLs, TTL changes and look instants up to 2^40 s with nanosecond carry, at StoredValue, Store and CacheD level.",
    "C10": "Bounded check of the real sweeper closure (one tick at any instant over arbitrary index contents) and of the expiry-index operations keeping each id in the shard of its current expiry.",
    "C11": "Bounded check of an unawaited put followed by a delete of the same key through the real worker (exactly-once, FIFO by ghost sequence numbers, key absent afterwards) plus the per-call obligation: one write call -> one queued command carrying the caller's acknowledgement.",
    "C12": "Bounded check of done()/poll() with one interfering poll (or done) placed by the solver at every shared-memory access of the other operation: never Ready(Pending), real status, wake-up of the last pending poller; the flag-before-status window is a recorded finding.",
    "C13": "Bounded check of the worker's drain after Shutdown (everything behind it answered ShuttingDown, nothing executed), of a late send placed at each dequeue operation of the draining worker, of the sweeper's and the consumer's exit and of clear(); the API gate and races inside shutdown() are not decided (harnesses do not complete, DESIGN.md section 4).",
    "C14": "Bounded model checking of the real sketch code: packed-counter kernels over all byte values and positions, sizing over all counters 1..=2^63, one-step inductive obligations from arbitrary sketch contents, seeds and hashes at width 4, constructor for counters 1..=9, TinyLFU window/threshold logic with a solver-chosen doorkeeper.",
    "C15": "Bounded check of the access-accounting identity for one record from arbitrary pool/buffer/queue states incl. saturated and stopped consumer, and that the hit path takes one lock and never blocks.",
    "C16": "Bounded check of every statistics counter method, the weight-statistics identity, hit/miss accounting of reads, and the hit ratio (counters <= 255); the all-hit ratio 0 is a recorded finding.",
    "C17": "Every harness fails on any reachable panic/overflow/out-of-bounds of the real code; the C17 list adds constructor and builder boundaries.",
    "C18": "Lock-order graph built from solver-decided reachability of every held->acquired pair of lock/queue classes over the C18 harnesses, checked for cycles; re-entrant acquisition is an assertion in every harness; hit path: one lock, no blocking operation.",
}
for _p, _t in _LEVEL.items():
    MANIFEST_TEXT[_p] = dict(level=_t + " Universally quantified inputs/states are exactly what the unit tests cannot sample; the verdict holds for every value inside the stated bounds only.", note=GENERIC_NOTE)
NOT_APPLICABLE = {}
