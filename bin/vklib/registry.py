"""Registry of harnesses: which property each serves, tier, per-harness time cap, what it encodes."""
from .stage import HARNESS_FILES

# harness file -> rust module path of the instrumented source file
MODULE_OF = {}
for rel, hf in HARNESS_FILES.items():
    parts = rel[:-3].split("/")
    if parts[-1] == "mod":
        parts = parts[:-1]
    MODULE_OF[hf] = "cache::" + "::".join(parts)

FC = "tinylfu_cached::cache::lfu::frequency_counter::"

HARNESSES = [
    # ---------------------------------------------------------------- C14 sketch
    dict(name="c14_row_increment_kernel", file="frequency_counter.rs", props=["C14", "C17"], timeout=120,
         encodes=[FC + "Row::increment_at", FC + "Row::get_at"]),
    dict(name="c14_row_half_and_clear_kernel", file="frequency_counter.rs", props=["C14"], timeout=120,
         encodes=[FC + "Row::half_counters", FC + "Row::clear", FC + "Row::get_at"]),
    dict(name="c14_next_power_2_kernel", file="frequency_counter.rs", props=["C14", "C17"], timeout=120,
         encodes=[FC + "FrequencyCounter::next_power_2"]),
    dict(name="c14_sketch_increment_monotone_w4", file="frequency_counter.rs", props=["C14"], timeout=300,
         encodes=[FC + "FrequencyCounter::increment", FC + "FrequencyCounter::estimate"]),
    dict(name="c14_sketch_reset_halves_w4", file="frequency_counter.rs", props=["C14"], timeout=300,
         encodes=[FC + "FrequencyCounter::reset", FC + "FrequencyCounter::clear", FC + "FrequencyCounter::estimate"]),
    dict(name="c14_new_sized_for_every_index", file="frequency_counter.rs", props=["C14", "C17"], timeout=300,
         encodes=[FC + "FrequencyCounter::new", FC + "FrequencyCounter::matrix", FC + "FrequencyCounter::seeds",
                  FC + "FrequencyCounter::increment", FC + "FrequencyCounter::estimate"]),
]

PROPERTY_NOTES = {
    "C14": dict(
        bounds="kernels: all 2^16 contents of a 2-byte row x 4 positions; next_power_2: all counters in 1..=2^63 (full width); "
               "stateful sketch harnesses: width 4 (2 bytes/row) with arbitrary contents, arbitrary 64-bit seeds and hashes; "
               "constructor: counters 1..=9; unwind per harness 5..11 with unwinding assertions",
        outside="sketch widths above 16 for the stateful harnesses; false-positive rate of the real bloom filter; allocation failure for huge counters",
        explanation="one-step inductive obligations over arbitrary sketch contents: increment raises the addressed estimate by one unless saturated and never lowers any other; "
                    "ageing halves every counter; TinyLFU resets exactly at the configured threshold",
        assumptions=["rand model: seeds are arbitrary 64-bit values", "bloomfilter model: no false negatives, false positives arbitrary but stable until clear"],
    ),
}

GENERIC_NOTE = ("Trusted: Kani/CBMC/CaDiCaL; the verification models of dashmap, parking_lot, crossbeam-channel, hashbrown, bloomfilter, rand "
                "(documented contracts, listed in evidence); rustc MIR -> goto translation; Key=Value=u64 instantiation; sequential consistency. "
                "Bounded: holds for every value inside the stated bounds, says nothing outside them.")

MANIFEST_TEXT = {
    "C14": dict(
        level="Bounded model checking of the real sketch code: packed-counter kernels over all byte values and positions, sizing over all counters 1..=2^63, "
              "one-step inductive obligations (increment/estimate/reset/clear) from arbitrary sketch contents, seeds and hashes at width 4, constructor for counters 1..=9, "
              "and the TinyLFU window/threshold logic with a solver-chosen doorkeeper. Universally quantified inputs are exactly what unit tests cannot sample.",
        note=GENERIC_NOTE),
}
NOT_APPLICABLE = {}
