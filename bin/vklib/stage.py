"""Stage /repo's current working tree into a scratch copy that `cargo kani` can build.

Nothing here edits /repo.  The staged copy gets:
  * a rewritten Cargo.toml (dev-dependencies / benches dropped, third-party runtime crates
    patched to the verification models under /verif/models),
  * three kinds of redirected `use` lines (std::thread, std HashSet/HashMap),
  * one appended `#[cfg(kani)] #[path=..] mod verif_kani;` line per harness file,
  * a generated `src/cache/vk_cfg.rs` with the run's constants (tier, seed, known-finding switches).
"""
import hashlib
import os
import re
import shutil
import subprocess

VERIF = os.path.dirname(os.path.dirname(os.path.dirname(os.path.abspath(__file__))))
REPO = os.environ.get("VK_REPO", "/repo")
MODELS = ["verif-sched", "dashmap", "parking_lot", "crossbeam-channel", "crossbeam-utils", "hashbrown", "bloomfilter", "rand", "num"]

# source file (relative to src/cache) -> harness file under /verif/harness
HARNESS_FILES = {
    "lfu/frequency_counter.rs": "frequency_counter.rs",
    "lfu/tiny_lfu.rs": "tiny_lfu.rs",
    "lfu/doorkeeper.rs": "doorkeeper.rs",
    "store/stored_value.rs": "stored_value.rs",
    "store/mod.rs": "store.rs",
    "clock.rs": "clock.rs",
    "stats/mod.rs": "stats.rs",
    "command/acknowledgement.rs": "acknowledgement.rs",
    "command/command_executor.rs": "command_executor.rs",
    "policy/cache_weight.rs": "cache_weight.rs",
    "policy/admission_policy.rs": "admission_policy.rs",
    "expiration/mod.rs": "expiration.rs",
    "pool.rs": "pool.rs",
    "config/mod.rs": "config.rs",
    "put_or_update.rs": "put_or_update.rs",
    "cached.rs": "cached.rs",
    "key_description.rs": "key_description.rs",
    "unique_id/increasing_id_generator.rs": "id_generator.rs",
}


def sha256_file(p):
    h = hashlib.sha256()
    with open(p, "rb") as f:
        h.update(f.read())
    return h.hexdigest()


def scratch_root():
    return os.environ.get("VERIF_SCRATCH", "/var/tmp/cached-vk")


def rewrite_manifest(text):
    """drop dev-deps / bench sections, add model patches + verif-sched dependency"""
    out, skip = [], False
    for line in text.splitlines():
        m = re.match(r"\s*\[+([^\]]+)\]+", line)
        if m:
            sect = m.group(1).strip()
            skip = sect.startswith("dev-dependencies") or sect.startswith("bench") or sect.startswith("patch") \
                or sect.startswith("workspace") or sect.startswith("profile")
        if not skip:
            out.append(line)
    text = "\n".join(out) + "\n"
    # add verif-sched as a normal dependency of the staged crate
    text = re.sub(r"(?m)^\[dependencies\]\s*$", "[dependencies]\nverif-sched = { path = \"%s/models/verif-sched\" }" % VERIF, text, count=1)
    text += "\n[workspace]\n\n[patch.crates-io]\n"
    for m in MODELS:
        if m == "verif-sched":
            continue
        text += '%s = { path = "%s/models/%s" }\n' % (m, VERIF, m)
    text += "\n[profile.dev]\ndebug = 0\n"
    return text


USE_COLLECTIONS = re.compile(r"^(\s*)use\s+std::collections::\{([^}]*)\}\s*;\s*$")
USE_COLLECTION1 = re.compile(r"^(\s*)use\s+std::collections::(HashSet|HashMap|BinaryHeap)\s*;\s*$")
USE_ATOMICS = re.compile(r"^(\s*)use\s+std::sync::atomic::\{([^}]*)\}\s*;\s*$")
USE_ATOMIC1 = re.compile(r"^(\s*)use\s+std::sync::atomic::AtomicBool\s*;\s*$")
USE_THREAD = re.compile(r"^(\s*)use\s+std::thread\s*;\s*$")


def redirect_imports(src):
    """returns (new_source, list of redirected import descriptions)"""
    done = []
    lines = src.split("\n")
    for i, line in enumerate(lines):
        if USE_THREAD.match(line):
            lines[i] = "#[cfg(not(kani))] use std::thread; #[cfg(kani)] use crate::cache::verif_rt::thread;"
            done.append("std::thread")
            continue
        m = USE_ATOMIC1.match(line)
        if m:
            lines[i] = "#[cfg(not(kani))] %s #[cfg(kani)] use crate::cache::verif_rt::atomic::AtomicBool;" % line.strip()
            done.append("std::sync::atomic::AtomicBool")
            continue
        m = USE_ATOMICS.match(line)
        if m:
            names = [n.strip() for n in m.group(2).split(",") if n.strip()]
            if "AtomicBool" in names:
                keep = [n for n in names if n != "AtomicBool"]
                new = "#[cfg(not(kani))] %s " % line.strip()
                if keep:
                    new += "#[cfg(kani)] use std::sync::atomic::{%s}; " % ", ".join(keep)
                new += "#[cfg(kani)] use crate::cache::verif_rt::atomic::AtomicBool;"
                lines[i] = new
                done.append("std::sync::atomic::AtomicBool")
            continue
        m = USE_COLLECTION1.match(line)
        if m:
            lines[i] = "#[cfg(not(kani))] %s #[cfg(kani)] use crate::cache::verif_rt::collections::%s;" % (line.strip(), m.group(2))
            done.append("std::collections::" + m.group(2))
            continue
        m = USE_COLLECTIONS.match(line)
        if m:
            names = [n.strip() for n in m.group(2).split(",") if n.strip()]
            moved = [n for n in names if n in ("HashSet", "HashMap", "BinaryHeap")]
            if moved:
                keep = [n for n in names if n not in moved]
                new = "#[cfg(not(kani))] %s " % line.strip()
                if keep:
                    new += "#[cfg(kani)] use std::collections::{%s}; " % ", ".join(keep)
                for n in moved:
                    new += "#[cfg(kani)] use crate::cache::verif_rt::collections::%s; " % n
                    done.append("std::collections::" + n)
                lines[i] = new
    return "\n".join(lines), done


def stage(tag, cfg_consts):
    """copy /repo's working tree (tracked + untracked, minus target/.git) and instrument it.
    returns dict(dir, sources={rel: sha}, redirected=[...], harness_files=[...])"""
    root = scratch_root()
    os.makedirs(root, exist_ok=True)
    dest = os.environ.get("VK_STAGE_DIR") or os.path.join(root, "%s-%d" % (tag, os.getpid()))
    if os.path.exists(dest):
        shutil.rmtree(dest)
    os.makedirs(dest)
    subprocess.run(["rsync", "-a", "--exclude", "/target", "--exclude", "/.git", "--exclude", "/benches",
                    "--exclude", "/tests", REPO + "/", dest + "/"], check=True)
    info = {"dir": dest, "sources": {}, "redirected": [], "harness_files": [], "missing_anchor_files": []}
    # manifest
    mpath = os.path.join(dest, "Cargo.toml")
    with open(mpath) as f:
        mt = f.read()
    with open(mpath, "w") as f:
        f.write(rewrite_manifest(mt))
    # Cargo.lock is kept: cargo drops the entries the patches make unused and keeps the pinned
    # versions of the real crates that remain (log, crossbeam-utils, cfg-if)
    os.makedirs(os.path.join(dest, ".cargo"), exist_ok=True)
    with open(os.path.join(dest, ".cargo", "config.toml"), "w") as f:
        f.write("[net]\noffline = true\n")
    # sources
    srcroot = os.path.join(dest, "src")
    for dp, dn, fn in os.walk(srcroot):
        for name in fn:
            if not name.endswith(".rs"):
                continue
            p = os.path.join(dp, name)
            rel = os.path.relpath(p, dest)
            info["sources"][rel] = sha256_file(p)
            with open(p) as f:
                s = f.read()
            s2, done = redirect_imports(s)
            # the crate's own unit tests use the real third-party APIs: keep them out of
            # `cargo kani playback` builds (cfg(test) + cfg(kani))
            s2 = s2.replace("#[cfg(test)]", "#[cfg(all(test, not(kani)))]")
            if s2 != s:
                info["redirected"] += ["%s: %s" % (rel, d) for d in done]
                with open(p, "w") as f:
                    f.write(s2)
    # harness modules
    cache_dir = os.path.join(srcroot, "cache")
    # private copies of the harness sources and the runtime (concrete playback edits them in place)
    shutil.copytree(os.path.join(VERIF, "harness"), os.path.join(dest, "vk_harness"))
    shutil.copytree(os.path.join(VERIF, "rt"), os.path.join(dest, "vk_rt"))
    for rel, hf in HARNESS_FILES.items():
        target = os.path.join(cache_dir, rel)
        hpath = os.path.join(dest, "vk_harness", hf)
        if not os.path.exists(hpath):
            continue
        if not os.path.exists(target):
            info["missing_anchor_files"].append(rel)
            continue
        with open(target, "a") as f:
            f.write('\n#[cfg(kani)] #[path = "%s"] pub(crate) mod verif_kani;\n' % hpath)
        info["harness_files"].append(hf)
    with open(os.path.join(cache_dir, "mod.rs"), "a") as f:
        f.write('\n#[cfg(kani)] #[path = "%s/vk_rt/verif_rt.rs"] pub(crate) mod verif_rt;\n' % dest)
        f.write('#[cfg(kani)] pub(crate) mod vk_cfg;\n')
        f.write('#[cfg(kani)] #[path = "%s/vk_harness/support.rs"] pub(crate) mod vk_support;\n' % dest)
    with open(os.path.join(cache_dir, "vk_cfg.rs"), "w") as f:
        f.write("// generated by /verif/bin/vk for this run\n#![allow(dead_code)]\n")
        for k, v in cfg_consts.items():
            if isinstance(v, bool):
                f.write("pub(crate) const %s: bool = %s;\n" % (k, "true" if v else "false"))
            else:
                f.write("pub(crate) const %s: u64 = %d;\n" % (k, int(v)))
    return info


def model_hashes():
    out = {}
    for m in MODELS:
        p = os.path.join(VERIF, "models", m, "src", "lib.rs")
        out[m] = sha256_file(p)[:16]
    out["verif_rt"] = sha256_file(os.path.join(VERIF, "rt", "verif_rt.rs"))[:16]
    return out


def cleanup(info):
    shutil.rmtree(info["dir"], ignore_errors=True)
