#!/bin/bash
# confirm_mutant.sh <worktree-id> : independently confirm a seeded change produced by a sub-agent
#   (1) demo passes on unchanged code (2) demo fails with the patch (3) full suite passes with the patch only
# then store it as /verif/seeded/<id>/ and remove the scratch worktree.
set -u
id=$1; wt=/tmp/mut/$id; out=$wt/OUT; dest=/verif/seeded/$id
export CARGO_NET_OFFLINE=true
[ -f $out/patch.diff ] || { echo "$id: no patch.diff"; exit 2; }
cp -r $out /tmp/mut/${id}_OUT
cd $wt && git reset -q && git checkout -q -- . && git clean -fdq -e OUT -e target
# rebase the scratch worktree onto /repo's current HEAD (fix commits may have landed since)
git checkout -q --detach $(git -C /repo rev-parse HEAD)
demo_cmd=$(python3 -c "import json;print(json.load(open('$out/meta.json'))['demo_cmd'])" | sed -e "s#cd $wt *&& *##" -e 's/-j [0-9]*/-j 4/')
echo "== $id demo_cmd: $demo_cmd"
git apply $out/demo.diff || { echo "$id: demo.diff does not apply"; exit 2; }
( eval "$demo_cmd" ) > /tmp/mut/${id}_demo_clean.log 2>&1; r1=$?
git apply $out/patch.diff || { echo "$id: patch.diff does not apply on current HEAD"; exit 2; }
( eval "$demo_cmd" ) > /tmp/mut/${id}_demo_patched.log 2>&1; r2=$?
git apply -R $out/demo.diff
cargo test --workspace --no-fail-fast --offline -j 4 > /tmp/mut/${id}_suite.log 2>&1; r3=$?
nfail=$(grep -c "^test .* FAILED" /tmp/mut/${id}_suite.log)
echo "== $id demo_on_clean_exit=$r1 demo_with_patch_exit=$r2 suite_with_patch_exit=$r3 suite_failed_tests=$nfail"
if [ $r1 -eq 0 ] && [ $r2 -ne 0 ] && [ $r3 -eq 0 ]; then
  mkdir -p $dest && cp $out/patch.diff $out/demo.diff $dest/
  python3 - <<PY
import json
m=json.load(open('$out/meta.json'))
m['confirmed_by_me']={'demo_passes_on_unchanged':True,'demo_fails_with_patch':True,'suite_passes_with_patch':True,
  'ran':['git apply demo.diff; $demo_cmd  (exit $r1)','git apply patch.diff; same command (exit $r2)','git apply -R demo.diff; cargo test --workspace --no-fail-fast --offline (exit $r3)'],
  'base_commit':'$(git -C /repo rev-parse --short HEAD)'}
json.dump(m,open('$dest/meta.json','w'),indent=1)
PY
  echo "== $id CONFIRMED -> $dest"
else
  echo "== $id NOT CONFIRMED (logs in /tmp/mut/${id}_*.log)"
fi
cd / && git -C /repo worktree remove --force $wt && echo "== $id worktree removed"
