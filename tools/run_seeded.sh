#!/bin/bash
# run_seeded.sh <seeded-id> <prop[:tier[:only-substr]]>... : apply a seeded change to /repo, run the named checks,
# ALWAYS undo the change, append one line per check to seeded/RESULTS.tmp
id=$1; shift
cd /repo && git checkout -q -- . && git apply /verif/seeded/$id/patch.diff || { echo "$id: patch does not apply"; git -C /repo checkout -q -- .; exit 2; }
trap 'git -C /repo checkout -q -- .' EXIT
for spec in "$@"; do
  IFS=: read p tier only <<< "$spec"
  args="check $p --tier ${tier:-quick} --no-evidence ${VK_EXTRA:---no-replay}"
  [ -n "$only" ] && args="$args --only $only"
  s=$(date +%s)
  out=$(/verif/bin/vk $args 2>&1 | grep -E "^vk:|VIOLATION|INCONCLUSIVE")
  rc=$(echo "$out" | grep -oE "exit [0-9]+" | tail -1)
  viol=$(echo "$out" | grep -c "^VIOLATION")
  first=$(echo "$out" | grep "^vk: $p harness" | head -2 | cut -c1-260 | tr '\n' ' ' | tr '|' '/')
  inc=$(echo "$out" | grep "^INCONCLUSIVE" | head -1 | cut -c1-160 | tr '|' '/')
  echo "| $id | $p ${tier:-quick} ${only} | $rc | $viol | $(( $(date +%s) - s )) s | $first $inc |" >> /verif/seeded/RESULTS.tmp
  echo "$id $spec: $rc violations=$viol :: $first $inc"
done
