#!/bin/bash
# run_seeded.sh <seeded-id> <prop[:tier[:only-substr]]>... : apply a seeded change to a scratch COPY of /repo's working tree
# (so that /repo itself stays untouched and other checks can run meanwhile), run the named checks against the copy
# (VK_REPO), remove the copy, append one line per check to seeded/RESULTS.tmp.
# Equivalent to: git -C /repo apply <patch>; bin/vk check ...; git -C /repo checkout -- .
id=$1; shift
scratch=/var/tmp/cached-vk/seedrepo-$id-$$
mkdir -p /var/tmp/cached-vk && rm -rf $scratch && rsync -a --exclude /target /repo/ $scratch/ || exit 2
trap 'rm -rf $scratch' EXIT
git -C $scratch checkout -q -- . && git -C $scratch apply /verif/seeded/$id/patch.diff || { echo "$id: patch does not apply"; exit 2; }
for spec in "$@"; do
  IFS=: read p tier only <<< "$spec"
  args="check $p --tier ${tier:-quick} --no-evidence ${VK_EXTRA:---no-replay}"
  [ -n "$only" ] && args="$args --only $only"
  s=$(date +%s)
  out=$(VK_REPO=$scratch /verif/bin/vk $args 2>&1 | grep -E "^vk:|VIOLATION|INCONCLUSIVE")
  rc=$(echo "$out" | grep -oE "exit [0-9]+" | tail -1)
  viol=$(echo "$out" | grep -c "^VIOLATION")
  first=$(echo "$out" | grep "^vk: $p harness" | head -2 | cut -c1-260 | tr '\n' ' ' | tr '|' '/')
  inc=$(echo "$out" | grep "^INCONCLUSIVE" | head -1 | cut -c1-160 | tr '|' '/')
  echo "| $id | $p ${tier:-quick} ${only} | $rc | $viol | $(( $(date +%s) - s )) s | $first $inc |" >> /verif/seeded/RESULTS.tmp
  echo "$id $spec: $rc violations=$viol :: $first $inc"
done
