#!/bin/bash
# run_seeded.sh <seeded-id> <prop> [more props...] : apply a seeded change to /repo, run the given properties' quick checks,
# undo the change, append the outcome to seeded/RESULTS.md
id=$1; shift
cd /repo && git checkout -q -- . && git apply /verif/seeded/$id/patch.diff || { echo "$id: patch does not apply"; exit 2; }
for p in "$@"; do
  out=$(/verif/bin/vk check $p --tier quick --no-evidence ${VK_EXTRA:-} 2>&1 | grep -E "^vk:|VIOLATION|INCONCLUSIVE" )
  rc=$(echo "$out" | grep -oE "exit [0-9]+" | tail -1)
  viol=$(echo "$out" | grep -c "^VIOLATION")
  first=$(echo "$out" | grep "^vk: $p harness" | head -2 | cut -c1-220 | tr '\n' ' ')
  echo "| $id | $p | $rc | $viol | $first |" >> /verif/seeded/RESULTS.tmp
  echo "$id $p: $rc violations=$viol :: $first"
done
git -C /repo checkout -q -- .
