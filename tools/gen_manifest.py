#!/usr/bin/env python3
"""Regenerate /verif/MANIFEST.json from the harness registry (bin/vklib/registry.py)."""
import json, os, sys
sys.path.insert(0, '/verif/bin')
from vklib.registry import HARNESSES, PROPERTY_NOTES, MANIFEST_TEXT, NOT_APPLICABLE
props = [json.loads(l) for l in open('/verif/properties.jsonl')]
claimed = sorted({p for h in HARNESSES for p in h['props']} & set(MANIFEST_TEXT))
checks = []
for p in props:
    pid = p['id']
    if pid not in claimed:
        continue
    t = MANIFEST_TEXT[pid]
    checks.append({
        "property_id": pid,
        "quick_cmd": "bin/vk check %s --tier quick" % pid,
        "thorough_cmd": "bin/vk check %s --tier thorough" % pid,
        "evidence_file": "/verif/evidence/%s.json" % pid,
        "replay_cmd_template": "cat {path}   # the file holds the concrete-playback unit test and the native replay verdict; re-run: bin/vk check %s" % pid,
        "engine": "kani-cbmc",
        "level_claimed": {"category": "model_checking", "text": t["level"], "design_ref": t.get("design", "DESIGN.md §3 " + pid)},
        "level_note": t["note"],
        "technique": t.get("technique", "bounded symbolic execution of the real Rust code (Kani 0.68 / CBMC 6.11, CaDiCaL): kani::any() inputs and pre-states, property as assertions, SAT verdict within stated unwinding bounds"),
    })
na = [{"property_id": p['id'], "reason": NOT_APPLICABLE.get(p['id'], "no solver-based check has been built for this property yet")} for p in props if p['id'] not in claimed]
m = {
    "version": 1,
    "setup_cmd": "bin/vk-setup",
    "hooks": {
        "guard": "cfg(kani) — exists only inside the staged scratch copy that bin/vk makes of /repo; /repo itself carries no hook commits",
        "enable": "bin/vk rsyncs /repo's working tree to $VERIF_SCRATCH (default /var/tmp/cached-vk), patches third-party crates to /verif/models/*, and appends `#[cfg(kani)] #[path=..] mod verif_kani;` lines to the copy; cargo kani then builds the copy",
        "baseline_off_cmd": "cd /repo && cargo test --workspace --no-fail-fast --offline",
        "source_commits": [],
        "add_only": True,
    },
    "engines": [{"name": "kani-cbmc", "path": "/verif/bin/vk", "serves_properties": claimed,
                 "kind_free_text": "Kani 0.68.0 (CBMC 6.11.0 + CaDiCaL) over the staged real source; verification models for third-party crates under /verif/models; harnesses under /verif/harness"}],
    "checks": checks,
    "not_applicable": na,
    "notes": "Exit codes of bin/vk: 0 held (KNOWN-FINDING lines possible), 1 VIOLATION (counterexample replayed natively with cargo kani playback), 2 inconclusive (timeout, OOM, unwinding bound, vacuous cover, build failure, non-replaying counterexample). Only `fix:` commits were made to /repo; see known-findings.json and DESIGN.md §5.",
}
json.dump(m, open('/verif/MANIFEST.json', 'w'), indent=1)
print("claimed:", claimed, "not_applicable:", [x['property_id'] for x in na])
