#!/bin/bash
# dev helper: restage and run one harness with CBMC's native output; print symex summary
h=$1; t=${2:-300}
d=/var/tmp/cached-vk/dev${KDEV_SLOT:-}
cd /verif && VK_STAGE_DIR=$d python3 -c "
import sys; sys.path.insert(0,'/verif/bin')
from vklib import stage; import json
c={'TIER_THOROUGH':False,'SEED':0,'LOCK_EDGES':False}
for f in json.load(open('/verif/known-findings.json'))['findings']: c['KF_'+f['id'].upper()]=(f['status']=='known')
stage.stage('dev',c)"
cd $d && (CARGO_NET_OFFLINE=true timeout $t cargo kani --target-dir $d-target --harness $h --output-format old > /tmp/kold_$h.log 2>&1)
grep -E "^error" -A5 /tmp/kold_$h.log | head -20
grep -E "aborting path|Runtime|VCC|Unwinding|VERIFICATION" /tmp/kold_$h.log | sed -E 's/(Unwinding loop [^ ]{0,60}).*(iteration [0-9]+).*/U/' | sed -E 's#/home/runner/.rustup/toolchains/[^/]*/lib/rustlib/src/rust/library/##' | cut -c1-170 | sort | uniq -c | sort -rn | head -${3:-14}
