#!/bin/bash
# dev helper: (re)stage /repo into a fixed scratch dir (keeping its target dir) and run harnesses matching a substring
# usage: tools/kdev.sh <harness-substr> [timeout_s] [extra kani args...]
h=$1; t=${2:-300}; shift 2 2>/dev/null
d=/var/tmp/cached-vk/dev${KDEV_SLOT:-}
cd /verif && VK_STAGE_DIR=$d python3 - <<PY
import sys, json; sys.path.insert(0,'/verif/bin')
from vklib import stage
consts={"TIER_THOROUGH":False,"SEED":0,"LOCK_EDGES":False}
for f in json.load(open('/verif/known-findings.json'))["findings"]:
    consts["KF_"+f["id"].upper()] = (f["status"]=="known")
stage.stage("dev", consts)
PY
cd $d && ( CARGO_NET_OFFLINE=true timeout $t cargo kani --target-dir $d-target --harness "$h" --output-format terse --no-assertion-reach-checks "$@" 2>&1 | grep -v "^$" | grep -E "^error|^  -->|Thread|Checking harness|VERIFICATION|failed|Failed|File:|cover|Verification Time|CBMC|unwind|panicked|Status|Complete" | grep -v "register_tool" | tail -60 ); echo "exit=$?"
