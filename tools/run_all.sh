#!/bin/bash
# run every property's check sequentially; args: tier [props...]
tier=${1:-quick}; shift
props=${@:-C14 C16 C09 C12 C15 C06 C10 C02 C07 C04 C08 C05 C01 C03 C11 C13 C17 C18}
for p in $props; do
  s=$(date +%s)
  /verif/bin/vk check $p --tier $tier ${VK_EXTRA:-} 2>&1 | grep --line-buffered -E "^vk:|VIOLATION|KNOWN-FINDING|INCONCLUSIVE"
  echo "== $p took $(( $(date +%s) - s )) s"
done
