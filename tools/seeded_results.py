#!/usr/bin/env python3
"""seeded/RESULTS.tmp (appended by tools/run_seeded.sh) -> seeded/RESULTS.md"""
import json, os
rows = {}
for line in open('/verif/seeded/RESULTS.tmp'):
    parts = [p.strip() for p in line.strip().strip('|').split('|')]
    if len(parts) < 6: continue
    rows[(parts[0], parts[1])] = parts
ids = sorted(d for d in os.listdir('/verif/seeded') if os.path.isdir('/verif/seeded/' + d))
out = ["# Seeded changes vs. the checks", "",
       "Each seeded change (`seeded/<id>/patch.diff`, written by a sub-agent that saw only the property text) was applied to a scratch copy of",
       "`/repo`'s working tree and the named check was run against it (`tools/run_seeded.sh`, equivalent to `git -C /repo apply …; bin/vk check …; git -C /repo checkout -- .`).",
       "exit 1 = VIOLATION reported; exit 2 = inconclusive (the harness that would see it did not complete); exit 0 = missed.", "",
       "| seeded | breaks | needs | check run | result | time | first failed assertion |", "|---|---|---|---|---|---|---|"]
for i in ids:
    meta = json.load(open('/verif/seeded/%s/meta.json' % i))
    mine = [v for (a, b), v in rows.items() if a == i]
    if not mine:
        out.append("| %s | %s | %s | — | not run: the harness built for it is switched off (DESIGN.md §4) | | |" % (i, meta.get('property'), (meta.get('needs') or '')[:140].replace('|', '/').replace('\n', ' ')))
    for v in mine:
        out.append("| %s | %s | %s | %s | %s (%s violation lines) | %s | %s |" % (i, meta.get('property'), (meta.get('needs') or '')[:140].replace('|', '/').replace('\n', ' '), v[1], v[2], v[3], v[4], v[5][:230]))
open('/verif/seeded/RESULTS.md', 'w').write("\n".join(out) + "\n")
print("\n".join(out[8:]))
