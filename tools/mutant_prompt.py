#!/usr/bin/env python3
"""Print the prompt given to a mutant-writing sub-agent: property text + scratch worktree only."""
import json, sys
pid, wt = sys.argv[1], sys.argv[2]
hint = sys.argv[3] if len(sys.argv) > 3 else ""
for l in open('/verif/properties.jsonl'):
    d = json.loads(l)
    if d['id'] == pid:
        break
else:
    sys.exit("no such property")
print(f"""You are helping test a verification effort for the Rust crate `tinylfu-cached` (CacheD: a TinyLFU-admission, weight-bounded, concurrent in-memory cache with TTL expiry, a single-threaded command executor and buffered access counting).

You have your own scratch git worktree of the repository at {wt} . Work ONLY inside that directory (never touch /repo, never read or write /verif). The machine is offline: use `cargo test --offline` (set CARGO_NET_OFFLINE=true); all dependencies are already in the cargo cache. Use at most 4 parallel build jobs (`-j 4`) because other builds run on this machine.

Here is a semantic property that the crate is supposed to satisfy:

TITLE: {d['title']}
STATEMENT: {d['statement']}
QUANTIFIED OVER: {d['quantifier']['text']}

YOUR TASK: write a realistic change (a "seeded defect") to the crate's non-test source code under src/ that BREAKS this property, while
  (a) the crate still compiles without new warnings-as-errors,
  (b) the ENTIRE existing test suite still passes unedited: `cd {wt} && CARGO_NET_OFFLINE=true cargo test --workspace --no-fail-fast --offline -j 4` (run it 2 times to make sure it is not flaky with your change), and
  (c) you can demonstrate the breakage with a new test or small program that FAILS with your change and PASSES on the unchanged code.

The change must look like something a maintainer could plausibly commit (an optimisation, a refactor, a "simplification", an off-by-one, a reordered pair of statements, a wrong comparison, a dropped re-check, two cooperating edits that each look fine alone ...). It must NOT be something ordinary use would expose at once: it should need something specific to manifest — a particular interleaving, a multi-step sequence of operations, an unusual/boundary input, a specific configuration, a specific clock instant, or two cooperating sites. Keep the diff small (ideally < 30 changed lines) and do not touch tests, Cargo.toml or public signatures. Do not add new dependencies. {hint}

Before designing the change, read the relevant source so that the change really violates the STATEMENT above (not merely some other behaviour) and make sure the unchanged code does satisfy the statement for your demonstration scenario (your demo must pass on the unchanged code).

The demonstration may be a `#[test]` placed in a new file under tests/ (integration test using the public API; tokio is available as a dev-dependency, e.g. `#[tokio::test]`), or a `#[cfg(test)]` unit test module appended to a source file if it needs crate-private access. Make it deterministic (no reliance on lucky timing; if a thread interleaving is required, force it with explicit synchronisation or by driving the crate-private pieces directly in a unit test).

DELIVERABLES — create the directory {wt}/OUT containing:
  - patch.diff : `git diff` of ONLY the source change (not the demo), applicable with `git apply` at the repository root;
  - demo.diff  : `git diff` (or for new files, a diff produced with `git add -N <file> && git diff -- <file>`) of ONLY the demonstration test;
  - meta.json  : {{"property": "{pid}", "summary": "<one paragraph: what was changed and why it breaks the property>", "needs": "<what is required for it to manifest>", "demo_cmd": "<exact cargo test command that runs the demo>", "suite_passes_with_patch": true/false, "demo_fails_with_patch": true/false, "demo_passes_without_patch": true/false}}
Verify all three booleans yourself by actually running the commands (apply/unapply your patch with git stash or git apply -R). When finished leave the worktree with BOTH patch and demo applied. Finally reply with a short summary (what you changed, file:line, how the demo shows it).""")
